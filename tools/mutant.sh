#!/bin/bash
# usage: tools/mutant.sh <file-in-repo> <python-regex-old> <new> -- <check ids...>
# applies a one-line textual mutation to /repo, runs the checks (quick), reverts. Development aid only.
f=$1; old=$2; new=$3; shift 4
python3 - "$f" "$old" "$new" <<'PY'
import sys,re
f,old,new=sys.argv[1:4]
p='/repo/'+f
s=open(p).read()
s2,n=re.subn(old,new,s,count=1,flags=re.S)
if n!=1: print("MUTATION DID NOT APPLY"); sys.exit(1)
open(p,'w').write(s2)
PY
[ $? = 0 ] || exit 1
git -C /repo diff --stat | tail -1
for c in "$@"; do
  echo "--- $c"; (cd /verif && timeout 900 python3 check.py $c --tier ${TIER:-quick} > /tmp/mut.out 2>&1; echo "rc=$?"; grep -E "VIOLATION|KNOWN|class=|ERROR|error" /tmp/mut.out | head -${LINES_MAX:-6})
done
git -C /repo checkout -- .
# evidence and replay files written against the mutated tree are not evidence: restore them
git -C /verif checkout -- evidence 2>/dev/null
git -C /verif clean -fdq replays 2>/dev/null
