#!/bin/bash
# usage: tools/seeded_process5.sh <worktree> <store-name> <check ids...>
# Round-5 layout: the worktree is clean and holds _seeded/patch.diff (breaking) and _seeded/benign.diff (property-preserving).
# Confirms both independently, stores them, then runs the named quick checks against each.
WT=$1; NAME=$2; shift 2
DEMO=$(grep -m1 "^DEMO:" $WT/_seeded/README.md | sed 's/^DEMO: *//; s/^`//; s/`$//')
git -C $WT checkout -- src apps 2>/dev/null
b() { cmake -G Ninja -B $WT/_work/build $WT >/dev/null 2>&1 && cmake --build $WT/_work/build >/dev/null 2>&1; }
for kind in patch benign benign2; do
  [ -f $WT/_seeded/$kind.diff ] || { [ $kind = benign2 ] || echo "$kind.diff MISSING"; continue; }
  git -C $WT apply $WT/_seeded/$kind.diff || { echo "$kind APPLY-FAILED"; continue; }
  git -C $WT diff --stat -- src apps | tail -1
  b || echo "$kind BUILD-FAILED"
  echo "== $kind: $(ctest --test-dir $WT/_work/build -j8 2>&1 | grep 'tests passed\|tests failed')"
  ( eval "$DEMO" ) > /tmp/demo_$kind.out 2>&1; echo "demo rc($kind)=$?  $(tail -1 /tmp/demo_$kind.out | cut -c1-150)"
  git -C $WT apply -R $WT/_seeded/$kind.diff
done
b; ( eval "$DEMO" ) > /tmp/demo_orig.out 2>&1; echo "demo rc(original)=$?"
mkdir -p /verif/seeded/$NAME && cp $WT/_seeded/* /verif/seeded/$NAME/
cd /verif
echo "--- breaking change vs $*"; tools/seeded_run.sh /verif/seeded/$NAME/patch.diff "$@"
for b in benign benign2; do
  if [ -f /verif/seeded/$NAME/$b.diff ]; then echo "--- $b change vs $* (must stay silent)"; tools/seeded_run.sh /verif/seeded/$NAME/$b.diff "$@"; fi
done
