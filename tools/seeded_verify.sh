#!/bin/bash
# usage: tools/seeded_verify.sh <worktree> "<demo build+run command>"
# Confirms independently: tests pass with the change; demo fails with it and passes without it.
# (Switches with git apply -R / git apply of _seeded/patch.diff: `git stash` is shared by all worktrees of a repository.)
WT=$1; DEMO=$2
cd $WT || exit 2
git -C $WT diff --quiet -- src apps && git -C $WT apply $WT/_seeded/patch.diff   # make sure the change is in
b() { cmake -G Ninja -B $WT/_work/build $WT >/dev/null 2>&1 && cmake --build $WT/_work/build >/dev/null 2>&1; }
echo "== with change"; b || { echo BUILD-FAILED; exit 1; }
ctest --test-dir $WT/_work/build -j8 2>&1 | grep "tests passed\|tests failed"
( eval "$DEMO" ) > /tmp/demo_with.out 2>&1; echo "demo rc(with change)=$?"; tail -3 /tmp/demo_with.out
git -C $WT apply -R $WT/_seeded/patch.diff || exit 2
echo "== without change"; b
( eval "$DEMO" ) > /tmp/demo_without.out 2>&1; echo "demo rc(original)=$?"; tail -2 /tmp/demo_without.out
git -C $WT apply $WT/_seeded/patch.diff
b
