#!/bin/bash
# usage: tools/seeded_verify.sh <worktree> "<demo build+run command, run from the worktree>"
# Confirms independently: tests pass with the change; demo fails with it and passes without it.
WT=$1; DEMO=$2
cd $WT || exit 2
b() { cmake -G Ninja -B $WT/_work/build $WT >/dev/null 2>&1 && cmake --build $WT/_work/build >/dev/null 2>&1; }
echo "== with change"; b || { echo BUILD-FAILED; exit 1; }
ctest --test-dir $WT/_work/build -j8 2>&1 | grep "tests passed\|tests failed"
( eval "$DEMO" ) > /tmp/demo_with.out 2>&1; echo "demo rc(with change)=$?"; tail -3 /tmp/demo_with.out
git -C $WT stash -q || exit 2
echo "== without change"; b
( eval "$DEMO" ) > /tmp/demo_without.out 2>&1; echo "demo rc(original)=$?"; tail -2 /tmp/demo_without.out
git -C $WT stash pop -q
b
