#!/bin/bash
# usage: tools/round_process.sh <round-prefix e.g. r9> [props...]
# For every /tmp/wt/<prefix><prop> worktree (round-5+ layout): verify patch/benign/benign2 independently, store under
# seeded/<prop>-<prefix>-<slug>/, run the quick check(s) of the property against each patch, print one compact block.
PFX=$1; shift
PROPS=${@:-C02 C06 C07 C09 C10 C12 C13 C14 C15 C16 C17 C19 C20}
declare -A EXTRA=([C06]="C17" [C14]="C17")
for P in $PROPS; do
  WT=/tmp/wt/$PFX$P
  [ -f $WT/_seeded/patch.diff ] || { echo "$P: no patch.diff"; continue; }
  slug=$(grep -m1 '^+++ b/' $WT/_seeded/patch.diff | sed 's|.*/||; s|\.[a-z]*$||; s|[^A-Za-z0-9]|-|g')
  NAME=$P-$PFX-$slug
  echo "=== $NAME"
  tools/seeded_process5.sh $WT $NAME $P ${EXTRA[$P]} 2>&1 | grep -E "^== |demo rc|^--- |rc=|class=|APPLY|MISSING|BUILD" | grep -v "^VIOLATION" | cut -c1-200
done
