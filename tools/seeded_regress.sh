#!/bin/bash
# Re-evaluate every seeded change against the quick check of the property it breaks; where a directory also holds a
# property-preserving change (benign.diff), the same check must stay silent on it.
# usage: [VERIF_REPO=<scratch copy of /repo>] [REGRESS_ORDER="Cxx ..."] [REGRESS_ONLY="Cxx ..."] tools/seeded_regress.sh   (default: /repo itself, patched and reverted one at a time)
R=${VERIF_REPO:-/repo}
cd "$(dirname "$0")/.."
V=$(pwd)
pass=0; fail=0; bok=0; bbad=0
# REGRESS_ORDER="C13 C07 ..." evaluates the directories of those properties first (the rest follow in name order)
DIRS=$(python3 - <<PY
import os
order = os.environ.get('REGRESS_ORDER', '').split()
only = os.environ.get('REGRESS_ONLY', '').split()
ds = sorted(d for d in os.listdir('seeded') if os.path.isdir(os.path.join('seeded', d)) and (not only or d[:3] in only))
key = lambda d: (order.index(d[:3]) if d[:3] in order else len(order), d)
print(' '.join('seeded/%s/' % d for d in sorted(ds, key=key)))
PY
)
for d in $DIRS; do
  n=$(basename $d)
  prop=$(python3 -c "import json;m=json.load(open('$d/meta.json'));print(m.get('evaluate_with',m['property']))")
  renv=$(python3 -c "import json;m=json.load(open('$d/meta.json'));print(m.get('regress_env',''))")
  git -C $R apply $V/$d/patch.diff || { echo "$n APPLY-FAILED"; continue; }
  env $renv VERIF_REPO=$R python3 check.py $prop --tier quick > /tmp/regress_$n.out 2>&1; rc=$?
  git -C $R checkout -- .
  cls=$(grep -m1 "class=" /tmp/regress_$n.out | sed 's/ detail=.*//')
  echo "$n $prop rc=$rc $cls"
  if [ $rc = 1 ]; then pass=$((pass+1)); else fail=$((fail+1)); fi
  for bn in benign benign2; do
    [ -f $d/$bn.diff ] || continue
    git -C $R apply $V/$d/$bn.diff || { echo "$n $bn APPLY-FAILED"; continue; }
    VERIF_REPO=$R python3 check.py $prop --tier quick > /tmp/regress_b_$n.out 2>&1; rc=$?
    git -C $R checkout -- .
    echo "$n $bn $prop rc=$rc $(grep -m1 'class=' /tmp/regress_b_$n.out | sed 's/ detail=.*//')"
    if [ $rc = 0 ]; then bok=$((bok+1)); else bbad=$((bbad+1)); fi
  done
done
git checkout -- evidence 2>/dev/null; git clean -fdq replays 2>/dev/null
echo "caught=$pass not-caught=$fail benign-silent=$bok benign-alarm=$bbad"
