#!/bin/bash
# usage: tools/seeded_process.sh <worktree> <store-name> <check ids...>
# verify independently, copy deliverables to /verif/seeded/<store-name>/, run the named quick checks against the patch
WT=$1; NAME=$2; shift 2
DEMO=$(grep -m1 "^DEMO:" $WT/_seeded/README.md | sed 's/^DEMO: *//; s/^`//; s/`$//')
echo "DEMO=$DEMO"
git -C $WT diff --stat -- src apps | tail -1
/verif/tools/seeded_verify.sh $WT "$DEMO" 2>&1 | grep -v "ld: \|NOTE" | cut -c1-180
mkdir -p /verif/seeded/$NAME && cp $WT/_seeded/* /verif/seeded/$NAME/
cd /verif && tools/seeded_run.sh $WT/_seeded/patch.diff "$@"
