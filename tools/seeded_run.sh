#!/bin/bash
# usage: tools/seeded_run.sh <patch.diff> <check ids...>   (applies to /repo, runs quick checks, reverts)
P=$1; shift
git -C /repo apply $P || { echo APPLY-FAILED; exit 2; }
for c in "$@"; do
  ( cd /verif && timeout ${SEEDED_TIMEOUT:-1800} python3 check.py $c --tier ${TIER:-quick} > /tmp/seeded_$c.out 2>&1; echo "$c rc=$?"; grep -E "^VIOLATION|class=|KNOWN|ERROR" /tmp/seeded_$c.out | head -${LINES_MAX:-6} )
done
git -C /repo checkout -- .
# evidence and replay files written against the mutated tree are not evidence: restore them
git -C /verif checkout -- evidence 2>/dev/null
git -C /verif clean -fdq replays 2>/dev/null
git -C /repo status --short | grep -v _build
