"""Regenerates /verif/MANIFEST.json from the table below: python3 -m asim.manifest"""
import json, os

VERIF = os.path.dirname(os.path.dirname(os.path.abspath(__file__)))

NA = {
    "C01": "pure function of its input (f(x) = the specification's f(x) for all x): no schedule, fault, clock, crash point or history for a simulator to decide; entry-point agreement clauses with state or randomness are decided under C07/C10/C17 (DESIGN §4)",
    "C03": "pure function of its input; nothing to schedule or fault (DESIGN §4); chunking of the same code is decided under C07",
    "C04": "pure function of its input; nothing to schedule or fault (DESIGN §4)",
    "C05": "pure function of its input; nothing to schedule or fault (DESIGN §4); chunked HKDF expansion is decided under C07",
    "C08": "pure function of (state, round, offset, size, data) per backend; cross-backend agreement of whole histories is decided under C09 (DESIGN §4)",
    "C11": "needs the branch/address trace of the shipped optimised object code with secrets tainted (binary-level taint tracking), a different technique; the simulator's load/store callbacks exist only in a differently compiled build (DESIGN §4)",
    "C18": "static artefacts for foreign ISAs (generator diffs, ISA emulation, ELF flags); nothing executes on this host for a simulator to schedule or perturb (DESIGN §4)",
}

PENDING = "check not built yet (pending in this session; see DESIGN §9)"

CHECKS = {
    "C02": dict(
        technique="deterministic simulation: two endpoints over a seeded hostile datagram network (loss, duplication, reordering, corruption, truncation, extension, key/nonce desynchronisation, bit-flip storms) with a ledger oracle",
        category="exploration",
        text="Seeded search over network fault schedules: sender and receiver sessions of every AEAD family (one-shot, incremental incl. multi-packet reinit with NULL key/nonce, masked, SIV, ISAP x three parameter sets; 14 backend x share configurations so that every masked backend family meets data shares 1..4, plus the acquire/release-checking configuration, where an abort of the checker inside a legal packet sequence is a C02 verdict) exchange packets through a simulated packet pool that drops, duplicates, reorders, corrupts (single/multi bit in ciphertext, tag, AD), truncates to any length, extends, and desynchronises keys and nonces; every delivery is judged against the ledger of what the sender really encrypted (accept iff identical tuple; plaintext and length on accept; zeroed buffer on one-shot reject). Bit-flip storms re-deliver one packet once per single-bit flip of ciphertext||tag, AD, nonce or key through fresh receiver objects (48 sampled bits in quick, every bit in thorough); for the C++ classes the storm receivers are keyed through the key constructor or set_key and judged by the same ledger. Sampling, not proof.",
        note="Thorough adds one packet over 2^32+11 bytes of associated data per one-shot/SIV/ISAP/masked family (size_t lengths). Trusted: ledger model in the harness; 2^-128 accidental forgeries ignored; what a C++ session object accepts after a nonce history is judged under C14 (its nonce is private), its keying paths also under C17.",
        design="§3 W1, §4 C02"),
    "C14": dict(
        technique="deterministic simulation: stream-mode sessions over the simulated network with a 128-bit big-endian counter model; packet i must equal the library's one-shot under N+i",
        category="exploration",
        text="Same simulated network as C02, judged for nonce discipline: starting nonces are drawn with every carry-chain length 0..16 (including wrap at 2^128); incremental C sessions must show nonce field = model (between packets, and value-before + 1 right after every start()) and ciphertext = one-shot under N+i; C++ objects must encrypt under the model nonce, advance after a successful decrypt and stay put after a failed one (observed behaviourally through retransmits across carries); set_counter/set_nonce(len 0..24) and the C helpers are ordinary session operations. Sampling over histories and fault sequences.",
        note="Trusted: unsigned __int128 counter model; the library's one-shot functions as substrate; C++ objects whose very first packet is wrong are left to C17.",
        design="§3 W1, §4 C14"),
    "C15": dict(
        technique="deterministic simulation: PRNG device with simulated entropy source (EINTR/EAGAIN/EIO), NV storage faults (errors, short/torn writes) and power loss; twin-tape influence runs; inverse-permutation state oracle",
        category="exploration",
        text="Seeded histories of init/fetch/feed/reseed/save/load/ascon_random/free/power-loss on a simulated device: the entropy tape and its faults come from a wrapped getrandom(), the flash page and its faults from the ascon_storage_t callbacks. Oracles are the sentences of the property: same plan twice => same output (the two executions differ in the address and in the previous content of the generator's memory: 0xD7 dirt against zero-filled or 0x2B); flipping one consumed tape byte, one fed byte or one byte of a stored seed that is later loaded changes every later block >= 16 bytes; after every init/fetch/feed/reseed/save/load p^-1(state) has a zero rate; a fetch after 16384 produced bytes draws from the source before it produces output (whether a draw comes before or after the output of a call is observed from the source's side, so a generator that reseeds as soon as the limit is reached is judged correctly too); every status equals the injected health of source/storage. Sampling over histories x fault sequences.",
        note="Trusted: harness p^-1 (validated against embedded known answers and its own forward direction, not against the library; on a build whose permutation differs from the model the p^-1 oracle is skipped and counted); Linux no-split guarantee for getrandom <= 256 bytes; status convention of random.h as repaired by the F12 fix commit.",
        design="§3 W3, §4 C15"),
    "C16": dict(
        technique="deterministic simulation: real threads released one at a time by a seeded scheduler that may pre-empt at every instrumented load/store/function entry of the library; own byte-precise race detector, static-storage write detector and per-thread result comparison",
        category="exploration",
        text="2..8 simulated caller threads run seeded plans over 28 operation kinds (hash, xof incl. custom/fixed variants, the AEADs, incremental AEAD, SIV, ISAP, masked AEADs, PRF/HMAC/KMAC/HKDF/KDF/PBKDF2 in both permutation families, ascon_random, PRNG objects, and every C++ class through its encrypt/decrypt pair; a third of the packets are corrupted before decryption so that failure paths run too) on private objects, on a shared pre-computed ISAP key per variant, shared masked keys, shared constant inputs, shared source states to copy from, adjacent output slices and adjacent input slices of one buffer, and one shared constant storage descriptor through which the generators of all threads save and load their seeds (a third of these operations meets a failing write). The library's C sources are built with clang load/store/function-entry callbacks, so every memory access of library code is both seen by the harness's race detector (any two accesses of different threads to the same byte with at least one write, since the library has no synchronisation) and a potential pre-emption point decided by the seeded scheduler (Bernoulli rates 1/10..1/5000 or PCT-style change points). Four invariants: no race; no store to the executable's writable static storage (hidden global state); every thread's results equal its plan run alone; every shared object holds, after the run, exactly the bytes it held before the first operation. Passes: c64 (no blind spots), asm (permutation modelled at the call boundary), c32 with 3 shares and direct-xor with 4 shares in quick; all five backends in thorough. Same seed => same switch sequence (checked under contention).",
        note="Trusted: clang's sanitizer-coverage instrumentation to report every load/store of the C sources; the baton scheduler; races are judged on a clang -O1 build, not the shipped -O3 one (a race is a source-level property). Allocation inside the library is observed through malloc/free hooks. Assembly objects cannot be instrumented: races inside them are out of reach, but any writable static storage they bring along is compared before and after every run.",
        design="§3 W4, §4 C16"),
    "C17": dict(
        technique="deterministic simulation: seeded life-cycle histories of the C++ cipher/hash/xof objects (every construction and keying path, every overload) mirrored call by call through the C API; the harness translation unit is the compile obligation",
        category="exploration",
        text="(1) Programs: asim/worlds/cppobj.cpp instantiates every public member and overload of the 12 cipher classes (through ascon::aead* and on objects of each concrete class type), hash/hasha, xof/xofa, xof[a]_with_output_length<1,17,32,64> and the byte-array helpers; if it stops compiling with an error located in a /repo header the check reports a C17 violation whose replay file holds the compiler log. (2) Histories: up to 3 cipher objects and 3 hash/xof objects live at once and go through default/key/NULL-key/saved-key/zero-length construction, set_key (full, zero length with NULL and non-NULL pointer, saved ISAP key, undocumented length -> false), set_nonce(0..24)/set_counter, encrypt/decrypt through all four overloads incl. tampered and too-short inputs, save_key, randomize_key, clear, copy construction, assignment (incl. self), reset, pad, destroy; every output must equal the C function for the model (key, nonce) or the mirrored C state, failed byte_array decrypts must leave no byte derived from the rejected packet, a crash counts as a violation. The same translation unit is compiled and run against the ASCON_NO_STL configuration (the library's own reference-counted byte_array); half of the byte_array calls reuse one long-lived output array while a by-value copy of the previous result is kept, and the copy must still hold what the C function returned.",
        note="Trusted: the C API of the same library as reference (C01..C05 not claimed), for the byte-array helper functions too; g++ as the compiler that decides 'compiles when used'.",
        design="§3 W8, §4 C17"),
    "C19": dict(
        technique="deterministic simulation: the tools' real main() in forked simulated processes over an in-memory file system with scripted syscall faults (EINTR/EAGAIN/short I/O/EIO/ENOSPC/open failure), crash points, tampering and entropy failure; thorough adds systematic k-th-call and every-byte sweeps",
        category="exploration",
        text="Seeded scenarios of asconcrypt (-e/-d/auto-detect/-o/-p/-k/-g/stdin-stdout, several inputs per invocation, an older longer file at the output name) and asconsum (hash and -c check mode with spoiled, duplicated and missing entries) run as simulated processes against a simulated OS; faults and crash points are attached to a specific call of a specific invocation. Oracles: round-trip identity; exit != 0 and no output file after wrong password (an unrelated one or one that differs from the right one only in its last character / by one appended character, at every length up to 1026), any bit flip, truncation (= writer crashed after any prefix), extension, any hard I/O fault or entropy failure; transient faults end in correct success or loud failure; asconsum output equals the library digest lines; check mode says OK exactly for unmodified files. Thorough adds fault_enumeration-style sweeps (k-th read/write fails for every k; every truncation length; one bit in every byte) on small files; the claimed level stays exploration because scenarios are sampled.",
        note="Trusted: the simulated OS (simos.c); whether a left-over file is a valid container is decided by the tool's own fault-free decrypt of it (no container format or PBKDF2 parameter is hard-coded in the oracle); PBKDF2 rounds reduced by a wrapper in most runs; close() errors, hard read errors in check mode, the exit status after a malformed list line, whether an empty or >= 1000-character password is accepted, and the layout of digest lines and key files are not judged (not in the statement).",
        design="§3 W5, §4 C19"),
    "C20": dict(
        technique="deterministic simulation: seeded operation histories on a pool of aliased non-STL byte_array values mirrored by std::vector, with injected allocation failures; hex codec under generated hostile texts and capacities against a grammar model",
        category="exploration",
        text="(a) Non-STL byte_array (library rebuilt with -DASCON_NO_STL): a pool of up to 6 variables goes through seeded histories of construct/copy/assign(self)/index/data()/resize/reserve/push/pop/clear/compare/iterate/destroy; after every operation every variable must equal its std::vector mirror (this exposes aliasing through the shared reference-counted buffer), comparisons must agree with std::vector, an allocation failure injected at the k-th allocation inside an operation must surface as std::bad_alloc without disturbing the other variables, and no block may stay allocated. (b) Hex codec and C++ helpers: texts from a grammar with whitespace, illegal characters (half from a boundary list, half uniformly from all 228 byte values that are neither digits nor white space; inserted or replacing a digit so parity varies), odd counts, NUL and high bytes, with exact/short/zero/larger capacities and guard bytes, against a 20-line reference decoder; encode-decode identity. Part (b) is model-based input sampling and is labelled so.",
        note="Trusted: std::vector as the value-semantics reference; the reference decoder; replaceable global operator new as the allocation seam.",
        design="§3 W6, §4 C20"),
    "C09": dict(
        technique="deterministic simulation replayed across build configurations: the same seeded plans (worlds stream, channel, prng, keystore, cppobj, bytes) are executed in every backend/share build and their history digests must be identical; the acquire/release checker build runs the same interleaved multi-object histories",
        category="exploration",
        text="Because a run is a pure function of its plan, 'same seed => same history digest' is an equality that can be checked across builds. Quick: 14 configurations (5 permutation backends at the default shares + 9 share combinations chosen so that each masked backend family asm/c64/c32 meets data shares 1..4) x 6 worlds, ~32k plans per configuration, every digest compared with the reference build; thorough: 5 backends + all 16 valid share combinations on asm, c64 and c32. A divergence is confirmed in fresh processes and minimised while the two builds still disagree. Second part: the worlds (interleaved histories on several live objects, incl. masked code) run on the CHECK_ACQUIRE_RELEASE build for shares (4,2,4), (2,1,2), (3,3,3) (all 16 in thorough), whose digests are compared with the reference build too; the library's own abort() is the violation.",
        note="Trusted: plan generators are configuration independent (world masked is excluded from the differential part for that reason); digests contain outputs/statuses only. A function that is wrong in the same way in every configuration is not detected here (C01/C03/.. are not claimed).",
        design="§4 C09"),
    "C12": dict(
        technique="deterministic simulation re-executed under ASan+UBSan with poisoned canaries, exact-size buffers, guard pages for assembly code, null pointers for empty inputs and hostile argument vectors, over backend/share configurations",
        category="exploration",
        text="All worlds (network, entropy/storage faults, object histories, masked tapes, C++ life cycles, byte_array with allocation faults, the tools in the simulated OS with hostile argv/files) are re-run in a gcc -fsanitize=address,undefined -fno-sanitize-recover build of the library, the C++ wrappers and the tools, over nine backend x share combinations in quick (all five backends; key shares below the maximum and data shares below the key shares included) or 14 in thorough. Every output buffer is exact-size at a seeded misalignment with ASan-poisoned canaries; a quarter of the runs place buffers against PROT_NONE pages so that uninstrumentable assembly is covered. Only sanitizer reports, guard faults, crashes and canary damage count.",
        note="Trusted: ASan/UBSan of gcc 12; assembly code is covered only by guard pages/canaries (inputs as well as outputs end at PROT_NONE pages in a quarter of the runs; every masked word and state is its own exact-size allocation); functional mismatches are deliberately ignored here.",
        design="§4 C12"),
    "C13": dict(
        technique="deterministic simulation with twin-secret executions: every plan runs twice in one process with different keys, messages, fed entropy and entropy tape; object bytes after free/clear()/destructor must be identical; release (-O3) build",
        category="exploration",
        text="The histories of worlds stream, channel, prng, keystore and cppobj (every object type named in the property, at arbitrary points of its life incl. mid-stream free, re-init, copies, failed decrypts) are executed twice with the same plan and schedule but different secrets; after every free, clear() or destructor the raw bytes of the object are compared between the two executions. History independence is judged separately: the freed object's bytes must equal those left by init+free alone (worlds stream and prng: same memory / a copy re-initialised with the same parameters on a private entropy tape; world cppobj: a never-used object of the same class in identically filled memory), so a length, position, phase or counter that survives the wipe is reported (residue_depends_on_history). C++ objects are placement-constructed in harness-owned storage so their bytes stay readable. Built with the exact release flags (-O3) of the shipped library, on all five backends at the default shares plus four (quick) or 21 (thorough) reduced/enlarged share configurations, because object layouts depend on them.",
        note="Trusted: the twin construction (keys, messages, nonces, AD, fed entropy and the entropy tape differ between the twins; only dependence on them is flagged, constant residue is allowed; fields that are a function of the plan alone - positions, counters - are equal in both twins and are judged by the init+free comparison instead, which exists for the C state objects of world stream, the PRNG and the C++ cipher classes, not for ISAP keys, masked keys and the C++ hash/xof wrappers; clear() of the masked C++ classes is exempt from it); stack residue is out of scope (the statement is about the bytes of the object).",
        design="§4 C13"),
    "C10": dict(
        technique="deterministic simulation: masked word/state/key/AEAD operation histories with the random source replaced at link time by simulator-controlled tapes (zero, ones, constant, periodic, counter, random, adversarial), over share-count x backend configurations",
        category="exploration",
        text="The five TRNG-mixer functions are replaced by a tape reader so that every 32/64-bit value the masked code draws is chosen by the simulator (this reaches the x86-64 assembly word backend too). Seeded histories over pools of masked words, states and keys (load/load_partial/load_32/store/store_partial/zero/xor/replace/randomize/from_xN/pad/separator; xN_permute for every starting round with preserved or fresh randomness; copy_from/to_x1 and share-count conversions; key init/extract/randomize; the three masked AEADs incl. tampered inputs) are compared, through public observers only, with the unmasked computation by the library itself. Re-randomisation must preserve the value and (random tape, distinct non-zero words, or no word drawn at all) change every share; masked AEAD histories re-randomise their key before and between uses. Masked keys are also re-randomised with the library's own random source inside the network world (world channel on three configurations; they must still extract to the key and the masked AEAD must still agree with the ledger). An operation of the masked world that dies (inputs end at a PROT_NONE page in a quarter of the runs) has computed no value and is a C10 verdict. Quick: 15 configurations; thorough: all 16 valid share combinations on asm, c64 and c32 plus direct-xor and generic.",
        note="Trusted: the library's unmasked permutation/AEAD as reference; tape reader; value semantics of load_partial/replace/pad as documented in ascon-masked-word.h.",
        design="§3 W7, §4 C10"),
    "C06": dict(
        technique="deterministic simulation: histories on ISAP pre-computed keys (packets, save, restart from the saved image into clean or dirty memory, free) with KAT-validated reference models of ISAP v2.0 and the SIV construction as oracle",
        category="exploration",
        text="History part (the simulation target): up to 3 interleaved pre-computed ISAP keys go through seeded sequences of encrypt/decrypt packets (incl. tampered), save to a byte image (the only durable state), restart (object discarded, reloaded from the image, possibly elsewhere and into dirty memory) and free; the raw key object must be bit-identical before and after every encrypt/decrypt/save, save(load(s)) == s, and every later packet must equal what the original key produces; the same histories also run in the acquire/release-checking configuration (an abort of the checker after a forged packet means the next packet on that key has no output). Specification part: every ISAP and SIV output is compared with reference models written over the harness' own reference permutation (validated against embedded known answers) and self-tested against the repository's KAT files at start-up - no library code is part of the oracle; equal SIV inputs give equal outputs, also when plaintext and ciphertext buffers are neighbours in one arena (0..19 bytes apart, either order). The specification part is model-based input sampling and is labelled so.",
        note="Trusted: the two reference models and the reference permutation (a model that fails its own known answers => exit 2, never a VIOLATION); the repository's KAT files.",
        design="§3 W8, §4 C06"),
    "C07": dict(
        technique="deterministic simulation: seeded interleaved object histories (chunking, copy, re-init, free, dirty-memory reuse) checked against the library's own single-call form",
        category="exploration",
        text="Seeded search over histories: up to 6 live incremental objects (hash, xof, prf, hmac, kmac, kdf, hkdf, incremental AEAD; both permutation families) are driven through randomly chunked absorb/squeeze/encrypt/decrypt calls (declared lengths up to 2^29 for the length-prefixed modes, HKDF up to and across its 8160-byte limit), copies, re-inits (incremental AEAD: also with the object's own nonce field as the nonce argument, a NULL nonce or a NULL key), several packets per incremental AEAD session, frees and re-use of dirty memory, interleaved by a seeded scheduler; after every output the transcript must equal the library's one-shot (or fresh single-call) result. Sampling, not proof; the right level because the quantifier is over unbounded call histories.",
        note="Trusted: the library's one-shot functions as the reference (what they compute is C03/C04/C05, not claimed); gcc; the harness' transcript model. XOF/XOFA sessions also go back from squeezing to absorbing (canonical form: one absorb and one squeeze call per round). Calls longer than a few KiB exist in the thorough tier only (batch `huge`: one absorb/update call of 2^32+k bytes behind a partly filled block, nine families).",
        design="§3 W2, §4 C07"),
}


def main():
    props = [json.loads(l) for l in open(os.path.join(VERIF, 'properties.jsonl'))]
    checks = []
    for p in props:
        c = CHECKS.get(p['id'])
        if not c:
            continue
        checks.append(dict(
            property_id=p['id'],
            quick_cmd='python3 check.py %s --tier quick' % p['id'],
            thorough_cmd='python3 check.py %s --tier thorough' % p['id'],
            evidence_file='/verif/evidence/%s.json' % p['id'],
            replay_cmd_template='python3 check.py --replay {path}',
            engine='asim',
            level_claimed=dict(category=c['category'], text=c['text'], design_ref=c['design']),
            level_note=c['note'],
            technique=c['technique']))
    na = []
    for p in props:
        if p['id'] in CHECKS:
            continue
        na.append(dict(property_id=p['id'], reason=NA.get(p['id'], PENDING)))
    m = dict(
        version=1,
        setup_cmd='python3 check.py --setup',
        hooks=dict(guard='ASCON_SUITE_VERIF',
                   enable='no source hooks in /repo: all seams are link-time (-Wl,--wrap of getrandom/open/read/write/close/unlink/fopen), compile-line renames (-Dmain=...) and interfaces the code already has (ascon_storage_t callbacks, replaceable operator new); check.py compiles /repo\'s working tree itself per configuration',
                   baseline_off_cmd='cmake -G Ninja -B /repo/_build /repo && cmake --build /repo/_build && ctest --test-dir /repo/_build -j8 --timeout 900',
                   source_commits=[], add_only=True),
        engines=[dict(name='asim', path='/verif/asim', serves_properties=sorted(CHECKS),
                      kind_free_text='deterministic simulator written for this repository: seeded explicit plans, cooperative and pre-emptive schedulers, fault-injecting seams, reference-model oracles, violation gate, delta-debugging shrinker, replay files, evidence writer')],
        checks=checks,
        notes='All checks: python3 check.py <id> --tier quick|thorough; VERIF_SEED selects the seed; exit 0 held / 1 VIOLATION / 2 harness error. Known findings: /verif/known_findings.json.',
        not_applicable=na)
    json.dump(m, open(os.path.join(VERIF, 'MANIFEST.json'), 'w'), indent=1)
    print('MANIFEST.json: %d checks, %d not applicable/pending' % (len(checks), len(na)))


if __name__ == '__main__':
    main()
