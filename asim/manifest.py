"""Regenerates /verif/MANIFEST.json from the table below: python3 -m asim.manifest"""
import json, os

VERIF = os.path.dirname(os.path.dirname(os.path.abspath(__file__)))

NA = {
    "C01": "pure function of its input (f(x) = the specification's f(x) for all x): no schedule, fault, clock, crash point or history for a simulator to decide; entry-point agreement clauses with state or randomness are decided under C07/C10/C17 (DESIGN §4)",
    "C03": "pure function of its input; nothing to schedule or fault (DESIGN §4); chunking of the same code is decided under C07",
    "C04": "pure function of its input; nothing to schedule or fault (DESIGN §4)",
    "C05": "pure function of its input; nothing to schedule or fault (DESIGN §4); chunked HKDF expansion is decided under C07",
    "C08": "pure function of (state, round, offset, size, data) per backend; cross-backend agreement of whole histories is decided under C09 (DESIGN §4)",
    "C11": "needs the branch/address trace of the shipped optimised object code with secrets tainted (binary-level taint tracking), a different technique; the simulator's load/store callbacks exist only in a differently compiled build (DESIGN §4)",
    "C18": "static artefacts for foreign ISAs (generator diffs, ISA emulation, ELF flags); nothing executes on this host for a simulator to schedule or perturb (DESIGN §4)",
}

PENDING = "check not built yet (pending in this session; see DESIGN §9)"

CHECKS = {
    "C07": dict(
        technique="deterministic simulation: seeded interleaved object histories (chunking, copy, re-init, free, dirty-memory reuse) checked against the library's own single-call form",
        category="exploration",
        text="Seeded search over histories: up to 6 live incremental objects (hash, xof, prf, hmac, kmac, kdf, hkdf, incremental AEAD; both permutation families) are driven through randomly chunked absorb/squeeze/encrypt/decrypt calls, copies, re-inits, frees and re-use of dirty memory, interleaved by a seeded scheduler; after every output the transcript must equal the library's one-shot (or fresh single-call) result. Sampling, not proof; the right level because the quantifier is over unbounded call histories.",
        note="Trusted: the library's one-shot functions as the reference (what they compute is C03/C04/C05, not claimed); gcc; the harness' transcript model. Absorb-after-squeeze is not generated.",
        design="§3 W2, §4 C07"),
}


def main():
    props = [json.loads(l) for l in open(os.path.join(VERIF, 'properties.jsonl'))]
    checks = []
    for p in props:
        c = CHECKS.get(p['id'])
        if not c:
            continue
        checks.append(dict(
            property_id=p['id'],
            quick_cmd='python3 check.py %s --tier quick' % p['id'],
            thorough_cmd='python3 check.py %s --tier thorough' % p['id'],
            evidence_file='/verif/evidence/%s.json' % p['id'],
            replay_cmd_template='python3 check.py --replay {path}',
            engine='asim',
            level_claimed=dict(category=c['category'], text=c['text'], design_ref=c['design']),
            level_note=c['note'],
            technique=c['technique']))
    na = []
    for p in props:
        if p['id'] in CHECKS:
            continue
        na.append(dict(property_id=p['id'], reason=NA.get(p['id'], PENDING)))
    m = dict(
        version=1,
        setup_cmd='python3 check.py --setup',
        hooks=dict(guard='ASCON_SUITE_VERIF',
                   enable='no source hooks in /repo: all seams are link-time (-Wl,--wrap of getrandom/open/read/write/close/unlink/fopen), compile-line renames (-Dmain=...) and interfaces the code already has (ascon_storage_t callbacks, replaceable operator new); check.py compiles /repo\'s working tree itself per configuration',
                   baseline_off_cmd='cmake -G Ninja -B /repo/_build /repo && cmake --build /repo/_build && ctest --test-dir /repo/_build -j8 --timeout 900',
                   source_commits=[], add_only=True),
        engines=[dict(name='asim', path='/verif/asim', serves_properties=sorted(CHECKS),
                      kind_free_text='deterministic simulator written for this repository: seeded explicit plans, cooperative and pre-emptive schedulers, fault-injecting seams, reference-model oracles, violation gate, delta-debugging shrinker, replay files, evidence writer')],
        checks=checks,
        notes='All checks: python3 check.py <id> --tier quick|thorough; VERIF_SEED selects the seed; exit 0 held / 1 VIOLATION / 2 harness error. Known findings: /verif/known_findings.json.',
        not_applicable=na)
    json.dump(m, open(os.path.join(VERIF, 'MANIFEST.json'), 'w'), indent=1)
    print('MANIFEST.json: %d checks, %d not applicable/pending' % (len(checks), len(na)))


if __name__ == '__main__':
    main()
