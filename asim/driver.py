"""Batch runner, violation gate, shrinker, replay and evidence writer."""
import json, os, re, subprocess, sys, time, threading, hashlib, tempfile, collections
from concurrent.futures import ThreadPoolExecutor

VERIF = os.path.dirname(os.path.dirname(os.path.abspath(__file__)))
WORKERS = int(os.environ.get('VERIF_WORKERS', '16'))
DEFAULT_SEED = 20260925
SCRATCH = os.path.join(VERIF, 'build', 'scratch')


class HarnessError(Exception):
    """Infrastructure problem: exit 2, never a VIOLATION line."""


class VClass(collections.namedtuple('VClass', 'prop oracle site')):
    def key(self):
        return '%s|%s|%s' % self


def parse_kv(s):
    d = {}
    if s and s != '-':
        for part in s.split(','):
            k, _, v = part.rpartition(':')
            d[k] = int(v)
    return d


class RunRec:
    __slots__ = ('idx', 'seed', 'plan', 'hist', 'ops', 'tasks', 'nf', 'F', 'P')


def parse_output(text):
    """Parse worker stdout. Returns (runs, viols, states, last_begin_unfinished)."""
    runs, viols, states = [], [], set()
    pending = None
    for line in text.splitlines():
        if line.startswith('BEGIN '):
            pending = int(line.split()[1])
        elif line.startswith('V '):
            parts = line.split(' ', 6)
            if len(parts) < 6:
                continue
            viols.append(dict(idx=int(parts[1]), cls=VClass(parts[2], parts[3], parts[4]),
                              op=int(parts[5]), detail=parts[6] if len(parts) > 6 else ''))
        elif line.startswith('R '):
            f = line.split()
            r = RunRec()
            r.idx = int(f[1])
            kv = dict(x.split('=', 1) for x in f[2:])
            r.seed, r.plan, r.hist = kv['seed'], kv['plan'], kv['hist']
            r.ops, r.tasks, r.nf = int(kv['ops']), int(kv['tasks']), int(kv['nf'])
            r.F, r.P = parse_kv(kv['F']), parse_kv(kv['P'])
            runs.append(r)
            pending = None
        elif line.startswith('END'):
            states.update(line.split()[1:])
        elif line.startswith('SELFTEST-FAIL'):
            raise HarnessError('model self-test failed: ' + line)
    return runs, viols, states, pending


SAN_FRAME = re.compile(r'#\d+ 0x[0-9a-f]+ in (\S+) (\S+)')
UBSAN_ERR = re.compile(r'^(\S+?):(\d+):(\d+): runtime error: (.*)$', re.M)


def classify_crash(rc, stderr, default_prop):
    """Map a dead worker to a violation class."""
    oracle = 'exit%d' % rc
    site = 'unknown'
    detail = ''
    m = re.search(r'ERROR: AddressSanitizer: (\S+)', stderr)
    u = UBSAN_ERR.search(stderr)
    if m:
        oracle = 'asan.' + m.group(1)
        frames = SAN_FRAME.findall(stderr)
        site = next((f for f, loc in frames if '/repo/' in loc), frames[0][0] if frames else 'unknown')
        detail = m.group(0)
    elif u:
        oracle = 'ubsan'
        msg = u.group(4)
        kind = re.sub(r'0x[0-9a-f]+', 'ADDR', msg)
        kind = re.sub(r'\d+', 'N', kind)[:60].strip().replace(' ', '_')
        frames = SAN_FRAME.findall(stderr)
        fn = next((f for f, loc in frames if '/repo/' in loc), None)
        site = (fn or os.path.basename(u.group(1))) + ':' + kind
        detail = u.group(0)
    elif rc in (-6, 134) or 'Aborted' in stderr:
        oracle = 'abort'
        m2 = re.search(r'ASCON[^\n]*|acquire[^\n]*|release[^\n]*', stderr)
        detail = (m2.group(0) if m2 else stderr[-200:]).strip()
        site = 'abort'
    elif rc in (-11, 139):
        oracle = 'sigsegv'
        site = 'guard_page_or_wild_access'
    elif rc in (-8, 136):
        oracle = 'sigfpe'
    return VClass(default_prop, oracle, site), detail.replace('\n', ' ')[:300]


class Batch:
    def __init__(self):
        self.runs = []
        self.viols = []
        self.crashes = []   # dict(idx, cls, detail, rc, stderr)
        self.states = set()
        self.wall = 0.0
        self.exe = None
        self.tier = 'quick'
        self.env = {}
        self.label = ''

    def merge_counts(self, key):
        c = collections.Counter()
        for r in self.runs:
            for k, v in getattr(r, key).items():
                c[k] += v
        return dict(sorted(c.items()))


def _spawn(exe, args, env, timeout=600):
    e = dict(os.environ)
    e.update(env or {})
    try:
        p = subprocess.run([exe] + args, stdout=subprocess.PIPE, stderr=subprocess.PIPE, env=e,
                           timeout=timeout)
        return p.returncode, p.stdout.decode('utf-8', 'replace'), p.stderr.decode('utf-8', 'replace')
    except subprocess.TimeoutExpired as t:
        out = (t.stdout or b'').decode('utf-8', 'replace')
        err = (t.stderr or b'').decode('utf-8', 'replace')
        return 'timeout', out, err


def run_batch(exe, n, tier, seed, env=None, start=0, crash_prop='C12', workers=None, chunk=None,
              budget_s=None, label='', spawn_timeout=600):
    """Execute runs start..start+n-1 of a world binary over a pool of workers."""
    workers = workers or WORKERS
    env = dict(env or {})
    env['VERIF_SEED'] = str(seed)
    os.makedirs(SCRATCH, exist_ok=True)
    env.setdefault('ASIM_SCRATCH', SCRATCH)
    b = Batch()
    b.exe, b.tier, b.env, b.label = exe, tier, env, label
    chunk = chunk or max(1, min(2000, n // (workers * 6) or 1))
    todo = collections.deque((a, min(a + chunk, start + n)) for a in range(start, start + n, chunk))
    lock = threading.Lock()
    t0 = time.time()

    def work():
        while True:
            with lock:
                if not todo or (budget_s and time.time() - t0 > budget_s):
                    return
                a, e = todo.popleft()
            while a < e:
                rc, out, err = _spawn(exe, ['--range', str(a), str(e), '--tier', tier], env, timeout=spawn_timeout)
                runs, viols, states, pending = parse_output(out)
                for v in viols:
                    v['range_start'] = a   # first run executed by the process in which this violation appeared
                with lock:
                    b.runs += runs
                    b.viols += viols
                    b.states |= states
                if rc == 0:
                    break
                if rc == 'timeout':
                    raise HarnessError('worker wall-clock watchdog fired for %s runs %d..%d' % (exe, a, e))
                if rc == 3:
                    raise HarnessError('self-test failed in %s: %s' % (exe, out[-300:]))
                if pending is None:
                    raise HarnessError('worker %s died outside a run (rc=%s): %s' % (exe, rc, err[-400:]))
                cls, detail = classify_crash(rc, err, crash_prop)
                with lock:
                    b.crashes.append(dict(idx=pending, cls=cls, detail=detail, rc=rc, stderr=err[-3000:]))
                a = pending + 1

    errs = []

    def guarded():
        try:
            work()
        except Exception as ex:   # propagate harness errors
            errs.append(ex)

    ths = [threading.Thread(target=guarded) for _ in range(workers)]
    for t in ths:
        t.start()
    for t in ths:
        t.join()
    if errs:
        raise errs[0]
    b.wall = time.time() - t0
    b.runs.sort(key=lambda r: r.idx)
    return b


def gen_plan(exe, idx, tier, env):
    rc, out, err = _spawn(exe, ['--gen', str(idx), '--tier', tier], env)
    if rc != 0:
        raise HarnessError('--gen failed: ' + err[-300:])
    return [l for l in out.splitlines() if l.strip()]


def exec_plan(exe, lines, tier, env, crash_prop):
    """Execute a plan in a fresh process. Returns (set of VClass, hist, details)."""
    os.makedirs(SCRATCH, exist_ok=True)
    fd, path = tempfile.mkstemp(prefix='plan', suffix='.txt', dir=SCRATCH)
    with os.fdopen(fd, 'w') as f:
        f.write('\n'.join(lines) + '\n')
    try:
        rc, out, err = _spawn(exe, ['--exec', path, '--tier', tier], env, timeout=3600 if (env or {}).get('ASIM_HUGE') else 300)
    finally:
        os.unlink(path)
    if rc == 'timeout':
        raise HarnessError('watchdog fired while replaying a plan')
    if rc == 3:
        raise HarnessError('self-test failed: ' + out[-300:])
    runs, viols, states, pending = parse_output(out)
    classes = {}
    for v in viols:
        classes[v['cls']] = v['detail']
    hist = runs[0].hist if runs else None
    if rc != 0:
        cls, detail = classify_crash(rc, err, crash_prop)
        classes[cls] = detail
        hist = 'crash:%s' % (rc,)
    return classes, hist


def exec_range(exe, a, idx, tier, env):
    """Execute runs a..idx in ONE fresh process (the context in which a batch worker met run idx).
    Returns the set of violation classes reported for run idx and that run's history digest."""
    e = dict(env or {})
    rc, out, err = _spawn(exe, ['--range', str(a), str(idx + 1), '--tier', tier], e, timeout=900)
    if rc == 'timeout':
        raise HarnessError('watchdog fired while re-executing a range')
    runs, viols, states, pending = parse_output(out)
    classes = {v['cls']: v['detail'] for v in viols if v['idx'] == idx}
    hist = next((r.hist for r in runs if r.idx == idx), None)
    return classes, hist


def shrink(exe, lines, tier, env, crash_prop, cls, max_runs=400, max_s=90, attempts=1):
    """Greedy delta-debugging over plan lines, then argument shrinking, keeping `cls`.
    attempts > 1: the violation is not deterministic; a candidate keeps it if any of `attempts` executions shows it."""
    t0 = time.time()
    runs = [0]

    def still(ls):
        for _ in range(attempts):
            if runs[0] >= max_runs or time.time() - t0 > max_s:
                return False
            runs[0] += 1
            classes, _ = exec_plan(exe, ls, tier, env, crash_prop)
            if cls in classes:
                return True
        return False

    cur = list(lines)
    n = 2
    while len(cur) >= 2 and runs[0] < max_runs and time.time() - t0 < max_s:
        size = max(1, len(cur) // n)
        removed = False
        i = 0
        while i < len(cur):
            cand = cur[:i] + cur[i + size:]
            if cand and still(cand):
                cur = cand
                removed = True
            else:
                i += size
        if not removed:
            if size == 1:
                break
            n = min(len(cur), n * 2)
    # argument shrinking: try 0, then halves, for every numeric argument but huge seeds
    changed = True
    while changed and runs[0] < max_runs and time.time() - t0 < max_s:
        changed = False
        for li, line in enumerate(cur):
            toks = line.split()
            for ti in range(1, len(toks)):
                try:
                    v = int(toks[ti])
                except ValueError:
                    continue
                if v == 0 or abs(v) > (1 << 40):
                    continue
                for nv in (0, v // 2, v - 1):
                    if nv == v:
                        continue
                    t2 = list(toks)
                    t2[ti] = str(nv)
                    cand = cur[:li] + [' '.join(t2)] + cur[li + 1:]
                    if still(cand):
                        cur = cand
                        toks = t2
                        changed = True
                        break
    return cur, runs[0]


def load_known():
    p = os.path.join(VERIF, 'known_findings.json')
    try:
        d = json.load(open(p))
    except OSError:
        return [], []
    return d.get('known', []), d.get('fixed', [])


def known_match(cls, known):
    for k in known:
        if k['property'] == cls.prop and k['oracle'] == cls.oracle and \
                (k['site'] == cls.site or (k['site'].endswith('*') and cls.site.startswith(k['site'][:-1]))):
            return k
    return None


class Outcome:
    """Accumulates batches for one property check and produces verdict + evidence."""

    def __init__(self, prop, tier, seed, level='exploration'):
        self.prop, self.tier, self.seed, self.level = prop, tier, seed, level
        self.batches = []
        self.t0 = time.time()
        self.extra = {}
        self.assumptions = []
        self.components = None
        self.rule = ''
        self.notes = []
        self.legend = None

    def add(self, batch):
        self.batches.append(batch)

    def candidates(self):
        """First occurrence of each violation class tagged with this property."""
        firsts = {}
        for b in self.batches:
            for v in b.viols:
                if v['cls'].prop != self.prop:
                    continue
                k = v['cls']
                if k not in firsts or (v['idx'] < firsts[k][1]['idx'] and firsts[k][0] is b):
                    if k not in firsts:
                        firsts[k] = (b, v)
            for c in b.crashes:
                if c['cls'].prop != self.prop:
                    continue
                if c['cls'] not in firsts:
                    firsts[c['cls']] = (b, dict(idx=c['idx'], cls=c['cls'], op=-1, detail=c['detail']))
        return firsts

    def finish(self, replay_tag=None):
        """Gate, shrink, write replay files, print verdict lines, write evidence. Returns exit code."""
        known, fixed = load_known()
        firsts = self.candidates()
        violations = 0
        known_hit = []
        replays = []
        unreproduced = []
        for cls, (b, v) in sorted(firsts.items()):
            lines = gen_plan(b.exe, v['idx'], b.tier, b.env)
            c1, h1 = exec_plan(b.exe, lines, b.tier, b.env, cls.prop)
            c2, h2 = exec_plan(b.exe, lines, b.tier, b.env, cls.prop)
            # The harness is deterministic (proved on the unchanged tree: same seed, same history digest), so a
            # violation whose fresh-process executions disagree with each other comes from code under test that is
            # itself not a function of its inputs (uninitialised memory, an address, a clock).  That is reported as
            # the violation it is, marked non-deterministic, provided the class recurs; a class that shows once in
            # the batch and never again in six fresh processes is not believed (exit 2).
            nondet = False
            if cls not in c1 or cls not in c2 or h1 != h2:
                tries = [(c1, h1), (c2, h2)] + [exec_plan(b.exe, lines, b.tier, b.env, cls.prop) for _ in range(4)]
                hits = [t for t in tries if cls in t[0]]
                if len(hits) >= 2 and len({t[1] for t in tries}) > 1:
                    nondet = True
                    c1, h1 = hits[0]
                elif 'range_start' in v and self._in_context(b, v, cls, known, replays) is not None:
                    # reproduced twice in its batch context (same runs before it in one process): the outcome of this
                    # run depends on something the plan does not control but the process history does - heap addresses
                    # (code under test comparing or hashing pointers), process-global state in the code under test.
                    # On the unchanged tree no run shows any violation in any context, so this path is reached only
                    # with a changed tree; it is reported as the violation it is, with the range as its replay.
                    k = self._in_context(b, v, cls, known, replays)
                    if k == 'known':
                        known_hit.append(cls.key())
                    else:
                        violations += 1
                    continue
                else:
                    # seen in a batch (many runs in one worker process), never alone in a fresh process: either the
                    # harness carried something from one run to the next, or the code under test did (process-global
                    # state).  Not believed on its own; see the end of this loop.
                    unreproduced.append('violation %s (run %d of %s) did not reproduce in fresh processes (%d of %d '
                                        'executions show it): first=%s/%s second=%s/%s' % (
                                            cls.key(), v['idx'], b.exe, len(hits), len(tries),
                                            sorted(x.key() for x in c1), h1, sorted(x.key() for x in c2), h2))
                    continue
            small, nruns = shrink(b.exe, lines, b.tier, b.env, cls.prop, cls, attempts=3 if nondet else 1)
            c3, h3 = exec_plan(b.exe, small, b.tier, b.env, cls.prop)
            for _ in range(5 if nondet else 0):
                if cls in c3:
                    break
                c3, h3 = exec_plan(b.exe, small, b.tier, b.env, cls.prop)
            if cls not in c3:
                small, c3, h3 = lines, c1, h1
            k = known_match(cls, known)
            rp = os.path.join(VERIF, 'replays', '%s-%s.json' % (
                self.prop, hashlib.sha1(cls.key().encode()).hexdigest()[:10]))
            os.makedirs(os.path.dirname(rp), exist_ok=True)
            json.dump(dict(property=self.prop, violation_class=dict(cls._asdict()),
                           detail=c3.get(cls, ''), world_exe=os.path.relpath(b.exe, VERIF),
                           label=b.label, tier=b.tier, env={k2: v2 for k2, v2 in b.env.items()},
                           seed=self.seed, run_index=v['idx'], original_ops=len(lines),
                           minimised_ops=len(small), shrink_reruns=nruns, history_digest=h3,
                           nondeterministic=nondet, plan=small), open(rp, 'w'), indent=1)
            replays.append(rp)
            if k:
                print('KNOWN-FINDING: property=%s %s [%s] replay=%s' % (self.prop, k.get('what', cls.key()), cls.key(), rp))
                known_hit.append(cls.key())
            else:
                violations += 1
                print('VIOLATION property=%s replay=%s' % (self.prop, rp))
                print('  class=%s detail=%s' % (cls.key(), c3.get(cls, '')))
                if nondet:
                    print('  note: executions of this plan in fresh processes differ from each other (history digests '
                          'disagree): the code under test is not a function of its inputs here; the replay retries')
        if unreproduced and not violations and not known_hit:
            raise HarnessError(unreproduced[0])
        for u in unreproduced:
            # other classes of the same check did reproduce: the verdict stands on those; this one is reported as seen
            print('NOTE (not counted): ' + u)
        self.write_evidence(violations, known_hit, replays)
        sys.stdout.flush()
        return 1 if violations else 0

    def _in_context(self, b, v, cls, known, replays):
        """Second chance for a violation that does not show when its plan runs alone: re-execute, twice, the runs that
        preceded it in its worker process.  Returns None (not reproduced), 'known' or 'violation' (reported, replay
        written).  Cached per class so that the probe in the elif and the body share one evaluation."""
        cache = self.__dict__.setdefault('_ctx_cache', {})
        if cls in cache:
            return cache[cls]
        a, idx = v['range_start'], v['idx']
        r1, h1 = exec_range(b.exe, a, idx, b.tier, b.env)
        r2, h2 = exec_range(b.exe, a, idx, b.tier, b.env)
        if cls not in r1 or cls not in r2 or h1 != h2:
            cache[cls] = None
            return None
        # shorten the context from the front while the violation stays (bisection over the range start)
        lo = a
        for _ in range(12):
            mid = (lo + idx) // 2
            if mid <= lo:
                break
            rr, hh = exec_range(b.exe, mid, idx, b.tier, b.env)
            if cls in rr:
                lo = mid
            else:
                break
        rp = os.path.join(VERIF, 'replays', '%s-%s.json' % (self.prop, hashlib.sha1(cls.key().encode()).hexdigest()[:10]))
        os.makedirs(os.path.dirname(rp), exist_ok=True)
        json.dump(dict(kind='range', property=self.prop, violation_class=dict(cls._asdict()), detail=r1.get(cls, ''),
                       world_exe=os.path.relpath(b.exe, VERIF), label=b.label, tier=b.tier,
                       env={k2: v2 for k2, v2 in b.env.items()}, seed=self.seed, run_index=idx, range_start=lo,
                       history_digest=h1, context_dependent=True,
                       plan=gen_plan(b.exe, idx, b.tier, b.env)), open(rp, 'w'), indent=1)
        replays.append(rp)
        k = known_match(cls, known)
        if k:
            print('KNOWN-FINDING: property=%s %s [%s] replay=%s' % (self.prop, k.get('what', cls.key()), cls.key(), rp))
            cache[cls] = 'known'
        else:
            print('VIOLATION property=%s replay=%s' % (self.prop, rp))
            print('  class=%s detail=%s' % (cls.key(), r1.get(cls, '')))
            print('  note: run %d shows this only when runs %d..%d precede it in the same process (its plan alone does not): '
                  'the outcome depends on process history the plan does not control, e.g. addresses; the replay re-executes that range' % (idx, lo, idx - 1))
            cache[cls] = 'violation'
        return cache[cls]

    def write_evidence(self, violations, known_hit, replays):
        runs = [r for b in self.batches for r in b.runs]
        evaluations = len(runs) + sum(len(b.crashes) for b in self.batches)
        nontrivial = set()
        for b in self.batches:
            for r in b.runs:
                if r.ops >= 3 and (r.nf >= 1 or r.tasks >= 2):
                    nontrivial.add((b.label, r.plan))
        faults = collections.Counter()
        probes = collections.Counter()
        states = set()
        for b in self.batches:
            for k, v in b.merge_counts('F').items():
                faults[k] += v
            for k, v in b.merge_counts('P').items():
                probes[k] += v
            states |= {b.label.split('@')[0] + ':' + s for s in b.states}
        wall = time.time() - self.t0
        run_wall = sum(b.wall for b in self.batches) or 1e-9
        samples = []
        for b in self.batches[:3]:
            if b.runs:
                r = b.runs[len(b.runs) // 2]
                try:
                    pl = gen_plan(b.exe, r.idx, b.tier, b.env)
                except HarnessError:
                    pl = []
                samples.append(dict(batch=b.label, run_index=r.idx, seed=r.seed, plan_digest=r.plan,
                                    history_digest=r.hist, faults=r.F, plan=pl[:80]))
        cov = dict(
            evaluations=evaluations,
            distinct_nontrivial=len(nontrivial),
            rule=self.rule or ('one evaluation = one simulated run (plan generated from the run seed, executed '
                               'against the library built from /repo); counted as distinct+non-trivial when the '
                               'plan digest is new and the run executed >= 3 operations and (fired >= 1 injected '
                               'fault/perturbation or interleaved >= 2 tasks)'),
            samples=samples,
            runs_per_hour=int(len(runs) / run_wall * 3600),
            seeds=dict(verif_seed=self.seed, first_run_index=min([r.idx for r in runs], default=0),
                       last_run_index=max([r.idx for r in runs], default=0)),
            simulated_time='not applicable: the system under test reads no clock in this build; progress is '
                           'measured in scheduler steps / operations',
            operations_executed=sum(r.ops for r in runs),
            faults_fired=dict(sorted(faults.items())),
            probes=dict(sorted(probes.items())),
            distinct_states=len(states),
            batches=[dict(label=b.label, runs=len(b.runs), crashes=len(b.crashes), wall_s=round(b.wall, 2),
                          config=os.path.basename(os.path.dirname(b.exe))) for b in self.batches],
            known_findings_hit=known_hit,
            replays=[os.path.relpath(p, VERIF) for p in replays],
        )
        if self.components:
            cov['components'] = self.components
        worlds = sorted({b.label.split('@')[0] for b in self.batches})
        if self.legend:
            cov['plan_legend'] = {w: self.legend[w] for w in worlds if w in self.legend}
        cov.update(self.extra)
        ev = dict(property_id=self.prop, tier=self.tier, seed=self.seed, level=self.level, coverage=cov,
                  assumptions=self.assumptions, wall_s=round(wall, 2), violations=violations)
        os.makedirs(os.path.join(VERIF, 'evidence'), exist_ok=True)
        json.dump(ev, open(os.path.join(VERIF, 'evidence', self.prop + '.json'), 'w'), indent=1)


def replay_file(path, build_exe):
    """Replay a stored plan in a fresh process; exit 1 when the violation recurs."""
    d = json.load(open(path))
    exe = build_exe(d)
    cls = VClass(**d['violation_class'])
    if d.get('kind') == 'range':
        classes, hist = exec_range(exe, d['range_start'], d['run_index'], d['tier'], d.get('env', {}))
        if cls in classes:
            print('REPRODUCED property=%s class=%s history=%s detail=%s (runs %d..%d in one process)' % (
                cls.prop, cls.key(), hist, classes[cls], d['range_start'], d['run_index']))
            return 1
        print('NOT-REPRODUCED property=%s class=%s (history=%s)' % (cls.prop, cls.key(), hist))
        return 0
    classes, hist = exec_plan(exe, d['plan'], d['tier'], d.get('env', {}), cls.prop)
    for _ in range(7 if d.get('nondeterministic') else 0):
        if cls in classes:
            break
        classes, hist = exec_plan(exe, d['plan'], d['tier'], d.get('env', {}), cls.prop)
    if cls in classes:
        print('REPRODUCED property=%s class=%s history=%s detail=%s' % (cls.prop, cls.key(), hist, classes[cls]))
        if d.get('history_digest') and d['history_digest'] != hist:
            print('  note: history digest differs from the recorded one (%s): %s' % (d['history_digest'], 'expected, this violation is marked non-deterministic' if d.get('nondeterministic') else 'the tree changed since'))
        return 1
    print('NOT-REPRODUCED property=%s class=%s (history=%s, classes seen: %s)' % (
        cls.prop, cls.key(), hist, sorted(c.key() for c in classes)))
    return 0
