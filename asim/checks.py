"""Per-property check definitions: which worlds, which builds, how many runs."""
import os, sys, json, time
from . import build as B
from . import driver as D

VERIF = B.VERIF
W = os.path.join(VERIF, 'asim', 'worlds')
S = os.path.join(VERIF, 'asim', 'seams')

COMPONENTS_LIB = dict(
    real=['every translation unit of /repo/src compiled from the working tree at check time '
          '(configured by /repo/CMakeLists.txt)'],
    stub=[])

_built = {}


def world_exe(world, backend='asm', shares=(4, 2, 4), flavour='rel'):
    """Build (incrementally) the library in the given configuration plus one world binary."""
    key = (world, backend, tuple(shares), flavour)
    if key in _built:
        return _built[key]
    cfg = B.Config(backend, shares, flavour).build_lib()
    spec = WORLDS[world]
    exe = spec['build'](cfg) if 'build' in spec else cfg.build_harness(
        world, [os.path.join(W, world + '.cpp')] + spec.get('extra_src', []),
        extra_cflags=spec.get('cflags', []), ldflags=spec.get('ldflags', []))
    _built[key] = exe
    return exe


WORLDS = {
    'stream': {},
}


def exe_for_replay(d):
    rel = d['world_exe']
    cfgname, exe = rel.split('/')[-2], rel.split('/')[-1]
    backend, sh, flavour = cfgname.split('-')
    return world_exe(exe[2:], backend, tuple(int(c) for c in sh), flavour)


def selftest(exe, env=None):
    rc, out, err = D._spawn(exe, ['--selftest'], env or {})
    if rc != 0:
        raise D.HarnessError('self-test of %s failed: %s %s' % (exe, out[-300:], err[-300:]))


def determinism(world, seed, n):
    """Same seeds twice, at two worker counts; digests must be identical."""
    exe = world_exe(world)
    a = D.run_batch(exe, n, 'quick', seed, workers=16)
    b = D.run_batch(exe, n, 'quick', seed, workers=3, chunk=97)
    da = {r.idx: (r.plan, r.hist) for r in a.runs}
    db = {r.idx: (r.plan, r.hist) for r in b.runs}
    bad = [i for i in da if da[i] != db.get(i)]
    print('determinism %s: %d runs x2, %d mismatches; %.1fs + %.1fs' % (world, n, len(bad), a.wall, b.wall))
    return 1 if bad or len(da) != n else 0


def setup():
    """Pre-build the configurations the quick checks use (incremental afterwards)."""
    t0 = time.time()
    for fn in SETUP_BUILDS:
        fn()
    print('setup done in %.1fs' % (time.time() - t0))
    return 0


# ---------------------------------------------------------------------------
def check_C07(tier, seed):
    o = D.Outcome('C07', tier, seed)
    o.components = dict(real=COMPONENTS_LIB['real'], stub=['none: the scheduler decides only the order and '
                        'chunking of public API calls on several live objects'])
    o.assumptions = ['oracle is the library\'s own single-call form (one-shot function, or a fresh object driven by '
                     'one absorb and one squeeze); what function is computed is out of scope (C03/C04/C05 are N/A)',
                     'absorb-after-squeeze is not generated (no single-call form defines it)']
    n = 40000 if tier == 'quick' else 600000
    cfgs = [('asm', 'rel')] if tier == 'quick' else [('asm', 'rel'), ('c64', 'rel'), ('c32', 'rel'), ('gen', 'rel')]
    for i, (be, fl) in enumerate(cfgs):
        exe = world_exe('stream', be, (4, 2, 4), fl)
        o.add(D.run_batch(exe, n if i == 0 else n // 4, tier, seed, label='stream@%s-%s' % (be, fl), crash_prop='C12'))
    o.extra['distinct_states_measure'] = ('visited (op, algorithm, variant/phase, bytes-in-block before the call, '
                                          'chunk-length class[, in-place]) tuples of the stream world')
    return o.finish()


CHECKS = {
    'C07': check_C07,
}

SETUP_BUILDS = [
    lambda: world_exe('stream'),
]
