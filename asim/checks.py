"""Per-property check definitions: which worlds, which builds, how many runs."""
import os, sys, json, time
from . import build as B
from . import driver as D

VERIF = B.VERIF
W = os.path.join(VERIF, 'asim', 'worlds')
S = os.path.join(VERIF, 'asim', 'seams')

COMPONENTS_LIB = dict(
    real=['every translation unit of /repo/src compiled from the working tree at check time '
          '(configured by /repo/CMakeLists.txt)'],
    stub=[])

LEGEND = {
    'stream': 'init|reinit slot kind variant L n1 n2 n3 seed (kind: 0 hash 1 hasha 2 xof 3 xofa 4 prf 5 hmac 6 hmaca 7 kmac 8 kmaca 9 kdf 10 kdfa 11 hkdf 12 hkdfa 13-15 incremental AEAD 128/128a/80pq; '
              'variant: xof 0 plain 1 fixed 2 custom, prf 1 fixed, AEAD 0 enc 1 dec 2 dec-tampered; n1/n2/n3 = key/name/AD, custom/salt, info/message lengths; AEAD: (seed>>9)%12 == 1 on a reinit passes the nonce field of the object itself as the nonce argument, == 2 a NULL nonce, == 3 a NULL key); absorb slot len inplace; squeeze slot len; '
              'copy dst src; pad slot (XOF/XOFA while absorbing: must act like absorbing zero bytes up to the block boundary); next slot dir adlen mlen seed (next packet on the same AEAD state); end slot; free slot; perm slot round seed; huge family pending extra seed (thorough: `pending` bytes, then ONE call of 2^32+extra bytes, against the single-call function); oneshot slot fn outlen inlen saltlen count seed (fn 0 prf_short 1 mac 2 mac+verify 3 pbkdf2 4 pbkdf2_hmac); sapi slot steps seed (seeded sequence of add/overwrite/zero/extract/extract-and-add/extract-and-overwrite/permute on a bare state over all offset+size <= 40); knob.page 1 = buffers against guard pages; knob.twin 1 = twin-secret run',
    'channel': 'sess s family keyseed carry keypaths (family = class*3+alg; keypaths bit0/bit1: sender/receiver C++ object keyed through its key constructor instead of set_key; class 0 one-shot 1 incremental 2 masked 3 siv 4 isap 5-8 the C++ classes; carry = trailing 0xFF bytes of the starting nonce); '
               'send s mlen adlen seed rngdead (incremental families: one packet in eight uses the nonce field of the session itself as associated data; one block call in six is empty; a third of the chunked packets in place); deliver s which fault faultseed keep rngdead (rngdead 1 = the system entropy source fails while the packet is processed; fault 1 flip ct 2 flip tag 3 flip AD 4 truncate 5 extend 6 multi-bit 7 AD length 8 last tag bit); drop s which; '
               'rekey s who seed (who 0 sender 1 receiver 2 both); nonce s who kind arg seed (kind 0 set_counter 1 set_nonce(len)); sync s (datagram resynchronisation); '
               'hugead family seed (thorough: one packet over 2^32+11 bytes of associated data, then one AD byte changed); storm s packet what seed keypath (single-bit flips of 0 ct||tag 1 AD 2 nonce 3 key through fresh receiver objects); close s',
    'prng': 'knob.tape kind seed; knob.flash size page erase; knob.flip seed (which tape/feed byte the influence twins flip); boot load nvfault nvarg transient permfail; fetch n transient permfail; feed n seed; '
            'reseed transient permfail; save|load nvfault nvarg transient permfail (nvfault 1 read error 2 short read 3 write error 4 short write 5 torn write + power loss 14 NULL storage 15 NULL state); grandom n transient permfail (ascon_random); free',
    'cli': 'knob.chunk max bytes per read/write; knob.eintr every n-th call interrupted; knob.rounds PBKDF2 rounds (0 = real); file name len seed; enc|dec name pw flags keyfile-ending rngfail then two fault slots (pw 0..9 ten unrelated passwords incl. empty, 1023, 1024 and 1025 characters; pw 10..19 the neighbour of pw-10: last character changed or one appended) '
           '(syscall ordinal kind arg; syscall 0 open-r 1 open-w 2 read 3 write 6 fopen 7 fread; kind 1 EINTR 2 EAGAIN 3 short 4 EIO 5 ENOSPC 6 EACCES 7 crash after arg bytes); flags bit0 explicit -e/-d bit1 -o bit2 key file bit3 stdin/stdout; '
           'tamper name kind seed; gen keyfile rngfail + faults; sum alg filemask missing + fault; chk alg filemask spoil seed + two short-fread slots; multi nfiles pw tamper seed + faults (several inputs in one invocation: joint encryption under faults, then joint decryption with one container spoiled); sweep name kind seed (thorough); hostile kind k seed',
    'bytes': 'hexenc n upper capsel seed (upper selects the int flag 0,1,2,-1,256,32,INT_MAX,INT_MIN); hexdec nbytes kind capsel seed (kind 0 clean 1 whitespace 2 illegal char 3 odd digits; capsel exact/-1/0/+1/+17); hexcpp nbytes kind how seed; '
             'ba op var other n value failat (op 0 default-construct 1 construct(n,v) 2 copy-construct 3 assign 4 [] write 5 [] read 6 data() write 7 resize 8 reserve 9 push_back 10 pop_back 11 clear 12 compare 13 iterate 14 destroy 15 write through end()-1 16 write through begin() 17 end() then begin() then fill 18 read through a const reference 19 a crowd of 2..513 copies of the variable, one written through data(); failat = k-th allocation fails)',
    'masked': 'knob.tape kind seed (0 random 1 zero 2 ones 3 const 4 period2 5 period3 6 counter 7 adversarial); w.* word ops (word, shares/other, size, seed); s.* state ops (state, shares|round, fresh-preserve, seed); k.key which how seed; a.aead alg mlen adlen tamper seed rerandomize (0 never 1 before first use 2 between encrypt and decrypt 3 both 4/5 = 1/2 with the library\'s own source); knob.page 1 = inputs/outputs and every word/state against guard pages; knob.unhealthy 1 = ascon_trng_init/_reseed report failure while values still flow',
    'keystore': 'key slot alg keyseed home; enc slot mlen adlen seed; dec slot mlen adlen seed tamper; save slot; restart slot where (bit0 other memory, bit1 dirty); free slot; siv alg mlen adlen seed',
    'cppobj': 'knob.rngdead r (operations at index % 8 == r run with the system entropy source dead; 99 = never); new obj class alg how keyseed (how 0 default 1 key ctor 2 NULL key 3 ISAP saved key 4 ISAP len 0); setkey obj how seed (0 full 1 zero-len NULL 2 zero-len non-NULL 3 saved ISAP key 4 length 7 then full); '
              'enc|dec obj mlen adlen seed overload [tamper] (byte_array overloads: seed bit 21 = the long-lived output array is reused and a by-value copy of its previous content is kept and re-checked); setnonce obj len seed; setcounter obj n; savekey|randomize|clear|del obj; hnew h kind how namelen customlen seed; hupd h overload len seed; hout h overload len; hcopy dst src; hassign dst src; hpad|hreset|hdel h; hdigest alg len seed; helper flags n shape seed (byte-array helpers vs the C functions; shape 0 clean 1 white space 2 illegal character 3 odd 4 mixed case 5 empty)',
    'threads': 'knob.threads n; knob.sched mode rate seed changepoints (mode 0 Bernoulli 1/rate, 1 change points); op thread kind mlen adlen seed flags (bit0 shared constant inputs, bits1-2 == 01 tampered packet, bits3-4 == 01 the entropy source fails during the operation; kind 0-17 C API, 18-21 C++ wrappers, 22 masked key toolkit 23 copies from shared states/reinit variants/hex codec/bare state 24 PRNG reseed+save+load 25 every thread decrypts into its own 13-byte slice of one buffer 26 generators saving and loading through one shared constant storage descriptor, failing first write in a third 27 every thread has its own 13-byte slice of one buffer encrypted by the masked AEADs)',
}


_built = {}
_cfgs = {}
_collect = None   # when a list: world_exe only records what would be built


def _config(backend, shares, flavour):
    key = (backend, tuple(shares), flavour)
    if key not in _cfgs:
        _cfgs[key] = B.Config(backend, shares, flavour).build_lib()
    return _cfgs[key]


def world_exe(world, backend='asm', shares=(4, 2, 4), flavour='rel'):
    """Build (incrementally) the library in the given configuration plus one world binary."""
    key = (world, backend, tuple(shares), flavour)
    if _collect is not None:
        _collect.append(key)
        return os.path.join(B.BUILD, B.cfg_name(backend, shares, flavour), 'w_' + world)
    if key in _built:
        return _built[key]
    cfg = _config(backend, shares, flavour)
    spec = WORLDS[world]
    exe = spec['build'](cfg) if 'build' in spec else cfg.build_harness(
        world, [os.path.join(W, world + '.cpp')] + spec.get('extra_src', []),
        extra_cflags=spec.get('cflags', []), ldflags=spec.get('ldflags', []))
    _built[key] = exe
    return exe


def collect_requests(names, tier):
    """Walk check functions with the batch runner and verdict step stubbed out; return the builds they need."""
    global _collect
    orig_rb, orig_fin, orig_we = D.run_batch, D.Outcome.finish, D.Outcome.write_evidence

    def _stub(exe, n, tier, seed, **k):
        b = D.Batch()
        b.exe, b.tier, b.label = exe, tier, k.get('label', 'setup@setup')
        return b
    D.run_batch = _stub
    D.Outcome.finish = lambda self, *a, **k: 0
    D.Outcome.write_evidence = lambda self, *a, **k: None
    _collect = []
    try:
        for name in names:
            try:
                CHECKS[name](tier, D.DEFAULT_SEED)
            except Exception as e:   # collection must never fail a check or the setup
                print('prebuild: %s: ignored %s: %s' % (name, type(e).__name__, e))
        reqs = list(dict.fromkeys(_collect))
    finally:
        _collect = None
        D.run_batch, D.Outcome.finish, D.Outcome.write_evidence = orig_rb, orig_fin, orig_we
    return reqs


def prebuild(reqs):
    """Build libraries (per configuration) and world binaries in parallel."""
    from concurrent.futures import ThreadPoolExecutor
    cfgs = list(dict.fromkeys((be, sh, fl) for w, be, sh, fl in reqs if (be, sh, fl) not in _cfgs))
    errs = []

    def lib(c):
        try:
            _config(*c)
        except B.BuildError as e:
            errs.append(e)
    with ThreadPoolExecutor(4) as ex:
        list(ex.map(lib, cfgs))
    if errs:
        raise errs[0]

    def har(k):
        try:
            world_exe(*k)
        except B.BuildError as e:
            errs.append(e)   # reported again, properly attributed, when the check asks for this binary
    with ThreadPoolExecutor(12) as ex:
        list(ex.map(har, [k for k in reqs if k not in _built]))


def run_check(name, tier, seed):
    prebuild(collect_requests([name], tier))
    return CHECKS[name](tier, seed)


CLI_WRAPS = ['open', 'read', 'write', 'close', 'unlink', 'isatty', 'fopen', 'getrandom', 'ascon_pbkdf2']


def build_cli(cfg):
    objs = cfg.build_app('asconcrypt', ['-Dmain=asconcrypt_main']) + cfg.build_app('asconsum', ['-Dmain=asconsum_main'])
    return cfg.build_harness('cli', [os.path.join(W, 'cli.cpp'), os.path.join(S, 'simos.c'), os.path.join(S, 'simrng.c')],
                             link_objs=objs + cfg.lib_objs,
                             ldflags=['-Wl,' + ','.join('--wrap=' + w for w in CLI_WRAPS)])


def build_masked(cfg):
    return cfg.build_harness('masked', [os.path.join(W, 'masked.cpp'), os.path.join(S, 'tape_trng.c')],
                             link_objs=cfg.lib_without('ascon-trng-mixer.c'))


def build_threads(cfg):
    wraps = ['memcpy', 'memset', 'explicit_bzero', 'getrandom', 'free', 'open', 'read', 'close']
    cflags = []
    if cfg.backend == 'asm':
        wraps.append('ascon_permute')
        cflags.append('-DASIM_WRAP_PERMUTE=1')
    return cfg.build_harness('threads', [os.path.join(W, 'threads.cpp'), os.path.join(S, 'simrng.c'), os.path.join(S, 'simdev.c')], extra_cflags=cflags,
                             link_objs=_asm_storage_named(cfg.lib_objs),
                             ldflags=['-Wl,' + ','.join('--wrap=' + w for w in wraps), '-rdynamic', '-ldl'])


def _asm_storage_named(objs):
    """Assembly objects cannot be instrumented, so their loads and stores are invisible to the detector.  What can be
    seen is their writable static storage: any .data/.bss an assembly object brings along is renamed to asmdata/asmbss,
    for which the linker defines __start_/__stop_ symbols; the world compares those bytes before and after a run."""
    import subprocess
    out = []
    for o in objs:
        if not o.endswith('.S.o'):
            out.append(o)
            continue
        p = subprocess.run(['size', '-A', o], stdout=subprocess.PIPE, stderr=subprocess.DEVNULL, text=True)
        sizes = {l.split()[0]: int(l.split()[1]) for l in p.stdout.splitlines() if len(l.split()) >= 2 and l.split()[1].isdigit()}
        if sizes.get('.bss', 0) == 0 and sizes.get('.data', 0) == 0:
            out.append(o)
            continue
        r = o[:-2] + '.named.o'
        subprocess.run(['objcopy', '--rename-section', '.bss=asmbss', '--rename-section', '.data=asmdata', o, r], check=True)
        out.append(r)
    return out


RNG_SEAM = dict(extra_src=[os.path.join(S, 'simrng.c'), os.path.join(S, 'simdev.c')], ldflags=['-Wl,--wrap=getrandom,--wrap=open,--wrap=read,--wrap=close'])

WORLDS = {
    'stream': {},
    'channel': dict(RNG_SEAM),
    'prng': dict(RNG_SEAM),
    'cli': dict(build=build_cli),
    'bytes': {},
    'threads': dict(build=build_threads),
    'masked': dict(build=build_masked),
    'cppobj': dict(RNG_SEAM),
    'keystore': dict(cflags=['-DASIM_REPO="%s"' % B.REPO]),
}


def exe_for_replay(d):
    if d.get('kind') == 'compile':
        return None
    rel = d['world_exe']
    cfgname, exe = rel.split('/')[-2], rel.split('/')[-1]
    backend, sh, flavour = cfgname.split('-')
    return world_exe(exe[2:], backend, tuple(int(c) for c in sh), flavour)


def selftest(exe, env=None):
    rc, out, err = D._spawn(exe, ['--selftest'], env or {})
    if rc != 0:
        raise D.HarnessError('self-test of %s failed: %s %s' % (exe, out[-300:], err[-300:]))


def determinism(world, seed, n):
    """Same seeds twice, at two worker counts; digests must be identical."""
    exe = world_exe(world)
    a = D.run_batch(exe, n, 'quick', seed, workers=16)
    b = D.run_batch(exe, n, 'quick', seed, workers=3, chunk=97)
    da = {r.idx: (r.plan, r.hist) for r in a.runs}
    db = {r.idx: (r.plan, r.hist) for r in b.runs}
    bad = [i for i in da if da[i] != db.get(i)]
    print('determinism %s: %d runs x2, %d mismatches; %.1fs + %.1fs' % (world, n, len(bad), a.wall, b.wall))
    return 1 if bad or len(da) != n else 0


def setup():
    """Pre-build every configuration the quick checks use (builds are incremental afterwards)."""
    t0 = time.time()
    reqs = collect_requests(sorted(CHECKS), 'quick')
    print('setup: %d world binaries over %d library configurations' % (len(reqs), len({k[1:] for k in reqs})))
    sys.stdout.flush()
    try:
        prebuild(reqs)
    except B.BuildError as e:
        print('setup: build problem (the checks themselves will report it): %s' % str(e)[:600])
    print('setup done in %.1fs' % (time.time() - t0))
    return 0


# ---------------------------------------------------------------------------
def check_C07(tier, seed):
    o = D.Outcome('C07', tier, seed)
    o.legend = LEGEND
    o.components = dict(real=COMPONENTS_LIB['real'], stub=['none: the scheduler decides only the order and '
                        'chunking of public API calls on several live objects'])
    o.assumptions = ['oracle is the library\'s own single-call form (one-shot function, or a fresh object driven by '
                     'one absorb and one squeeze); what function is computed is out of scope (C03/C04/C05 are N/A)',
                     'XOF/XOFA sessions that go back from squeezing to absorbing are compared with the same session driven by one absorb and one squeeze call per round']
    n = 200000 if tier == 'quick' else 600000
    cfgs = [('asm', 'rel'), ('c64', 'rel'), ('c32', 'rel'), ('dxor', 'rel'), ('gen', 'rel')]
    for i, (be, fl) in enumerate(cfgs):
        exe = world_exe('stream', be, (4, 2, 4), fl)
        o.add(D.run_batch(exe, n if i == 0 else n // 4, tier, seed, label='stream@%s-%s' % (be, fl), crash_prop='C12'))
    if tier == 'thorough' or os.environ.get('VERIF_HUGE'):
        # one absorb call of more than 2^32 bytes per run (tens of seconds each): 18 runs over the nine families
        o.add(D.run_batch(world_exe('stream', 'asm', (4, 2, 4), 'rel'), 18, tier, seed, env={'ASIM_HUGE': '1'}, label='stream@asm-rel-huge', crash_prop='C12', chunk=1, spawn_timeout=3600))
    o.extra['distinct_states_measure'] = ('visited (op, algorithm, variant/phase, bytes-in-block before the call, '
                                          'chunk-length class[, in-place]) tuples of the stream world')
    return o.finish()


CHANNEL_STUB = ['the network between the two endpoints (packet pool: loss, duplication, reordering, corruption, '
                'truncation, extension, key/nonce desynchronisation)',
                'getrandom() and the random devices /dev/urandom, /dev/random (one deterministic tape; failure script while a packet is processed; only the masked families draw from it)']


def check_C02(tier, seed):
    o = D.Outcome('C02', tier, seed)
    o.legend = LEGEND
    o.components = dict(real=COMPONENTS_LIB['real'], stub=CHANNEL_STUB)
    o.assumptions = ['ledger oracle: a delivery must be accepted iff (key, nonce, AD, ciphertext||tag) equals the tuple of '
                     'an encryption the sender performed; accidental forgery (2^-128) is ignored',
                     'judged on the C entry points (one-shot, incremental, masked, SIV, ISAP) where the nonce in use is '
                     'passed or publicly readable; the C++ wrappers are judged under C14/C17',
                     'wipe-on-failure is demanded for one-shot decrypts with clen >= 16 only, as the property states']
    n = 150000 if tier == 'quick' else 1500000
    # the masked family exists in three backend families and with 1..4 data shares: every combination is in the cover
    cfgs = [('asm', (4, 2, 4)), ('c64', (4, 2, 4)), ('c32', (4, 2, 4)), ('dxor', (4, 2, 4)), ('gen', (4, 2, 4)),
            ('c64', (4, 3, 4)), ('asm', (3, 3, 3)), ('c32', (3, 3, 3)), ('asm', (4, 4, 4)), ('c64', (2, 1, 2)), ('c32', (2, 1, 3)), ('c64', (4, 4, 4)), ('c32', (4, 4, 4)), ('asm', (3, 1, 4))]
    for i, (be, sh) in enumerate(cfgs):
        exe = world_exe('channel', be, sh, 'rel')
        o.add(D.run_batch(exe, n if i == 0 else n // 4 if i < 5 else n // 10, tier, seed, label='channel@%s-%d%d%d' % (be, *sh), crash_prop='C12'))
    # the acquire/release-checking configuration: a legal packet sequence (forged packets included) that makes the
    # checker abort never reports its result, so an abort there is a C02 verdict
    o.add(D.run_batch(world_exe('channel', 'chk', (4, 2, 4), 'rel'), n // 10, tier, seed, label='channel@chk-424', crash_prop='C02'))
    if tier == 'thorough' or os.environ.get('VERIF_HUGE'):
        # one packet with 2^32+11 bytes of associated data per run (tens of seconds to minutes each): the 12 one-shot,
        # SIV, ISAP and masked families
        o.add(D.run_batch(world_exe('channel', 'asm', (4, 2, 4), 'rel'), 24, tier, seed, env={'ASIM_HUGE': '1'}, label='channel@asm-rel-hugead', crash_prop='C12', chunk=1, spawn_timeout=3600))
    o.extra['distinct_states_measure'] = 'visited (event kind, family class, fault kind, accept/reject, length class) tuples'
    return o.finish()


def check_C14(tier, seed):
    o = D.Outcome('C14', tier, seed)
    o.legend = LEGEND
    o.components = dict(real=COMPONENTS_LIB['real'], stub=CHANNEL_STUB)
    o.assumptions = ['128-bit big-endian counter model (unsigned __int128) in the harness',
                     'substrate for "packet i equals the one-shot result under N+i" is the library\'s own one-shot function',
                     'C++ objects are keyed by default construction + set_key(full length); an object whose first packet under '
                     'an explicit 16-byte nonce is already wrong is not judged here (that is C17 matter)']
    n = 150000 if tier == 'quick' else 1500000
    cfgs = [('asm', (4, 2, 4)), ('c64', (4, 2, 4)), ('c32', (4, 2, 4)), ('dxor', (4, 2, 4)), ('gen', (4, 2, 4))]
    for i, (be, sh) in enumerate(cfgs):
        exe = world_exe('channel', be, sh, 'rel')
        o.add(D.run_batch(exe, n if i == 0 else n // 5, tier, seed, label='channel@%s-%d%d%d' % (be, *sh), crash_prop='C12'))
    o.extra['distinct_states_measure'] = 'visited (event kind, family class, fault kind, accept/reject, length class, starting carry chain) tuples'
    return o.finish()


def check_C15(tier, seed):
    o = D.Outcome('C15', tier, seed)
    o.legend = LEGEND
    o.components = dict(real=COMPONENTS_LIB['real'] + ['ascon_trng_generate() and its EINTR/EAGAIN retry loop (src/random/ascon-trng-dev-random.c)'],
                        stub=['getrandom() and the random devices behind -Wl,--wrap (entropy tape + EINTR/EAGAIN/EIO script)',
                              'non-volatile page behind the ascon_storage_t callbacks (errors, short and torn writes, power loss by longjmp)'])
    o.assumptions = ['inverse permutation p^-1 in the harness, self-tested against ascon_permute at start-up',
                     'status convention for save/load: non-zero = done, 0 = storage failed, -1 = invalid parameters (random.h after the F12 documentation fix)',
                     'reseed oracle counts caller-visible bytes only and never flags extra or earlier draws',
                     'a getrandom() request of <= 256 bytes is never split (Linux guarantee the code relies on)']
    n = 40000 if tier == 'quick' else 600000
    cfgs = [('asm', (4, 2, 4)), ('c64', (4, 2, 4)), ('c32', (4, 2, 4)), ('dxor', (4, 2, 4)), ('gen', (4, 2, 4))]
    for i, (be, sh) in enumerate(cfgs):
        exe = world_exe('prng', be, sh, 'rel')
        o.add(D.run_batch(exe, n if i == 0 else n // 6, tier, seed, label='prng@%s' % be, crash_prop='C12'))
    o.extra['distinct_states_measure'] = 'visited (operation, size class, drew-from-source, past-reseed-limit, injected storage fault, expected status) tuples'
    return o.finish()


CLI_STUB = ['open/read/write/close/unlink/isatty behind -Wl,--wrap: in-memory file system in a shared arena, per-process fd table, '
            'scripted EINTR/EAGAIN/short I/O/EIO/ENOSPC/EACCES and crash points',
            'fopen() -> fopencookie streams over the same file system (asconsum); stdin/stdout replaced in the simulated process',
            'getrandom() (tape, permanent failure)',
            'ascon_pbkdf2 iteration count reduced by a link-time wrapper in most runs (knob.rounds; 0 = the real 8192)',
            'each tool invocation is a fork()ed simulated process running the tool\'s real main()']


def check_C19(tier, seed):
    o = D.Outcome('C19', tier, seed)
    o.legend = LEGEND
    o.components = dict(real=COMPONENTS_LIB['real'] + ['apps/asconcrypt/*.c and apps/asconsum/asconsum.c compiled from /repo with main renamed'],
                        stub=CLI_STUB)
    o.assumptions = ['transient faults (EINTR, EAGAIN, short reads/writes) must end in success-with-correct-output or in a loud failure without output',
                     'hard faults (EIO, ENOSPC, failed open, failed entropy source), wrong password, any bit flip, truncation or extension must '
                     'end in exit != 0 and no output file',
                     'file names shorter than the .ascon suffix are decrypted with -o (the default naming is undefined for them; memory safety of that path is C12)',
                     'asconsum check mode: names are drawn from an alphabet without leading spaces or ": "']
    n = 12000 if tier == 'quick' else 150000
    exe = world_exe('cli', 'asm', (4, 2, 4), 'rel')
    o.add(D.run_batch(exe, n, tier, seed, label='cli@asm-rel', crash_prop='C12', chunk=50))
    o.extra['distinct_states_measure'] = 'visited (tool, option flags, input class, exit class, hard-fault fired, transient fired) tuples'
    return o.finish()


def check_C20(tier, seed):
    o = D.Outcome('C20', tier, seed)
    o.legend = LEGEND
    o.components = dict(real=COMPONENTS_LIB['real'] + ['src/cplusplus/ascon-byte-array.cpp and utility.h compiled with -DASCON_NO_STL (whole library rebuilt in that configuration)'],
                        stub=['global operator new/delete (allocation-failure decision and live-block accounting)'])
    o.assumptions = ['hex grammar oracle: digits of both cases, the six C whitespace characters, anything else / odd count / insufficient space => -1',
                     'byte_array mirror: std::vector<unsigned char>; pop_back on an empty value is not generated (undefined for std::vector)',
                     'after an injected std::bad_alloc only the other variables are required to be unchanged (no strong guarantee is stated)',
                     'the hex half of this check is model-based input sampling, not schedule/fault search (DESIGN §3 W6)']
    n = 150000 if tier == 'quick' else 1200000
    flv = [('rel', n // 3), ('nostl', n)] if tier == 'quick' else [('rel', n // 3), ('nostl', n), ('nostlsan', n // 6)]
    for fl, k in flv:
        exe = world_exe('bytes', 'asm', (4, 2, 4), fl)
        o.add(D.run_batch(exe, k, tier, seed, label='bytes@%s' % fl, crash_prop='C12'))
    o.extra['distinct_states_measure'] = 'visited (operation, operated value shared with another variable, allocation fault armed, size class) and (codec op, text kind, capacity class, accept/reject) tuples'
    return o.finish()


def check_C10(tier, seed):
    o = D.Outcome('C10', tier, seed)
    o.legend = LEGEND
    o.components = dict(real=COMPONENTS_LIB['real'] + ['masked word/state/key/AEAD code of the configured backend (x86-64 assembly, 64-bit C, 32-bit C)'],
                        stub=['ascon_trng_init/_free/_generate_32/_generate_64/_reseed replaced at link time by a tape reader '
                              '(zero, ones, constant, period-2/3, counter, random, adversarial = the secret being masked); ascon-trng-mixer.c is not linked'])
    o.assumptions = ['values are observed only through the public store/extract/copy_to_x1 functions (the rotation scheme is not baked into the harness)',
                     'unmasked counterparts are the library\'s own ascon_permute and one-shot AEAD functions',
                     '"changes every share" is judged only on the random tape and only when the words drawn during the call are pairwise distinct and non-zero',
                     'replace() is generated with sizes 0..7, store_partial/load_partial with 1..7 (documented ranges)']
    if tier == 'quick':
        cfgs = [('asm', (4, 2, 4), 80000), ('c64', (3, 3, 3), 40000), ('c32', (2, 1, 2), 40000), ('c64', (4, 4, 4), 25000), ('c32', (4, 3, 4), 25000),
                ('asm', (3, 3, 3), 25000), ('dxor', (4, 2, 4), 20000), ('gen', (3, 1, 3), 20000), ('asm', (4, 1, 4), 20000), ('c64', (2, 2, 2), 20000), ('c32', (4, 4, 4), 20000),
                ('asm', (3, 2, 4), 15000), ('c64', (2, 2, 3), 15000), ('c32', (2, 1, 4), 15000), ('c64', (3, 1, 4), 15000)]
    else:
        cfgs = [(be, sh, 40000) for be in ('asm', 'c64', 'c32') for sh in B.ALL_SHARES] + [('dxor', (4, 2, 4), 40000), ('dxor', (3, 3, 3), 40000), ('gen', (3, 1, 3), 40000), ('gen', (4, 4, 4), 40000)]
    for be, sh, n in cfgs:
        exe = world_exe('masked', be, sh, 'rel')
        # a masked operation that dies (e.g. on the PROT_NONE page right behind an exactly-sized input) computes no
        # value at all where its unmasked counterpart does: counted as a C10 verdict here (and as C12 in check C12)
        o.add(D.run_batch(exe, n, tier, seed, label='masked@%s-%d%d%d' % (be, *sh), crash_prop='C10'))
    # masked keys with the library's own random source (world channel: keys are re-randomised before use and must
    # still extract to the key; only its C10 verdicts count here)
    for be, sh in [('asm', (4, 2, 4)), ('c32', (3, 3, 3)), ('c64', (2, 1, 2))]:
        exe = world_exe('channel', be, sh, 'rel')
        o.add(D.run_batch(exe, 6000 if tier == 'quick' else 60000, tier, seed, label='channel@%s-%d%d%d' % (be, *sh), crash_prop='C12'))
    o.extra['distinct_states_measure'] = 'visited (operation, share count[, conversion target, size, round, in-place]) tuples per configuration'
    o.extra['configurations'] = ['%s-%d%d%d' % (be, *sh) for be, sh, n in cfgs]
    return o.finish()


def check_C06(tier, seed):
    o = D.Outcome('C06', tier, seed)
    o.legend = LEGEND
    o.components = dict(real=COMPONENTS_LIB['real'], stub=['none: the simulator decides the history (packets, save, restart into clean or dirty memory, free) '
                                                           'and keeps the saved image as the only durable state'])
    o.assumptions = ['reference models of ISAP v2.0 and of the documented SIV construction written over the library\'s public permutation API, '
                     'self-tested against test/kat/ISAP-A-*.txt and ASCON-*-SIV.txt at start-up (failure => exit 2)',
                     'for SIV the keystream pass follows the property anchor and the KAT files (permute-then-squeeze); doc/siv.dox prose differs and is not used',
                     'the "equals the specification" clauses are model-based sampling of inputs; the history part (packets on one key, save/load/restart) is the simulation target']
    n = 100000 if tier == 'quick' else 600000
    cfgs = [('asm', (4, 2, 4)), ('c64', (4, 2, 4)), ('c32', (4, 2, 4)), ('dxor', (4, 2, 4)), ('gen', (4, 2, 4))]
    for i, (be, sh) in enumerate(cfgs):
        exe = world_exe('keystore', be, sh, 'rel')
        o.add(D.run_batch(exe, n if i == 0 else n // 6, tier, seed, label='keystore@%s' % be, crash_prop='C12'))
    # acquire/release-checking configuration: every packet sequence on one pre-computed key (forged packets included)
    # must leave the backend balanced; an abort of the checker there means the next packet has no output at all
    o.add(D.run_batch(world_exe('keystore', 'chk', (4, 2, 4), 'rel'), n // 6, tier, seed, label='keystore@chk', crash_prop='C06'))
    o.extra['distinct_states_measure'] = 'visited (algorithm, operation, tamper kind, message/AD length class, object restored-from-saved) tuples'
    return o.finish()


def compile_obligation(prop, world, backend='asm', shares=(4, 2, 4), flavour='rel'):
    """Build a world whose translation unit *is* a compile obligation of the property.
    Returns (exe, None) or (None, violation dict) when the harness TU does not compile against /repo's headers."""
    import re, hashlib
    try:
        return world_exe(world, backend, shares, flavour), None
    except B.BuildError as e:
        msg = str(e)
        if ('worlds/%s.cpp' % world) not in msg.split('\n')[0]:
            raise   # the library itself does not build: infrastructure, not a C17 verdict
        m = re.search(r'(/repo/[^:\s]+):(\d+):\d+: error: ([^\n]*)', msg)
        if not m:
            # the error is reported at the call site in the harness (e.g. "no matching function for call to
            # ascon::...") and the compiler's notes name the declarations in /repo that were considered: the
            # documented call no longer compiles against these headers
            e1 = re.search(r'worlds/%s\.cpp:\d+:\d+: error: ([^\n]*)' % world, msg)
            n1 = re.search(r'(/repo/[^:\s]+):(\d+):\d+: note: ', msg)
            if e1 and n1 and 'ascon::' in e1.group(1):
                class _M:
                    def __init__(self, a, b, c): self.g = (None, a, b, c)
                    def group(self, i): return self.g[i]
                m = _M(n1.group(1), n1.group(2), e1.group(1))
        site = '%s:%s' % (os.path.relpath(m.group(1), B.REPO), m.group(2)) if m else 'harness'
        if not m:
            raise
        cls = D.VClass(prop, 'does_not_compile_when_used', site)
        rp = os.path.join(VERIF, 'replays', '%s-%s.json' % (prop, hashlib.sha1(cls.key().encode()).hexdigest()[:10]))
        os.makedirs(os.path.dirname(rp), exist_ok=True)
        json.dump(dict(kind='compile', property=prop, violation_class=dict(cls._asdict()), world=world,
                       config=[backend, list(shares), flavour], detail=m.group(3), compiler_log=msg[-6000:]), open(rp, 'w'), indent=1)
        return None, dict(cls=cls, detail=m.group(3), replay=rp)


def replay_compile(d):
    exe, v = compile_obligation(d['property'], d['world'], d['config'][0], tuple(d['config'][1]), d['config'][2])
    if v:
        print('REPRODUCED property=%s class=%s detail=%s' % (d['property'], v['cls'].key(), v['detail']))
        return 1
    print('NOT-REPRODUCED property=%s: the translation unit compiles' % d['property'])
    return 0


def check_C17(tier, seed):
    o = D.Outcome('C17', tier, seed)
    o.legend = LEGEND
    o.components = dict(real=COMPONENTS_LIB['real'] + ['public C++ headers of /repo/src/ascon as included by the harness translation unit'],
                        stub=['getrandom() (deterministic tape; only the masked classes draw from it)'])
    o.assumptions = ['the harness translation unit asim/worlds/cppobj.cpp instantiates every public member and overload; a compile error located in a /repo header is reported as a C17 violation',
                     'model = (key bytes, 128-bit nonce) or the call transcript, evaluated through the C API of the same library',
                     'after clear() the object is re-keyed before further use; after a REJECTED set_key (returns false: "the key was not set") the object goes on under its old key in half of the cases',
                     'after a failed byte_array decrypt every byte of the output array must be zero or what the array held at that index before the call; bytes derived from the rejected packet are not accepted',
                     'ASCON_NO_STL configuration: the std::string overloads do not exist there and are replaced by the pointer overloads in the harness']
    exe, v = compile_obligation('C17', 'cppobj')
    if not v:
        # the same translation unit against the headers in the ASCON_NO_STL configuration (the library's own byte_array)
        exe, v = compile_obligation('C17', 'cppobj', 'asm', (4, 2, 4), 'nostl')
    if v:
        known, fixed = D.load_known()
        k = D.known_match(v['cls'], known)
        o.extra['compile_obligation'] = 'FAILED: ' + v['detail']
        if k:
            print('KNOWN-FINDING: property=C17 %s [%s] replay=%s' % (k.get('what', ''), v['cls'].key(), v['replay']))
            o.write_evidence(0, [v['cls'].key()], [v['replay']])
            return 0
        print('VIOLATION property=C17 replay=%s' % v['replay'])
        print('  class=%s detail=%s' % (v['cls'].key(), v['detail']))
        o.write_evidence(1, [], [v['replay']])
        return 1
    o.extra['compile_obligation'] = 'asim/worlds/cppobj.cpp compiled: every public member and overload of the C++ classes is instantiated there'
    n = 120000 if tier == 'quick' else 800000
    cfgs = [('asm', (4, 2, 4)), ('c64', (4, 2, 4)), ('c32', (4, 2, 4)), ('dxor', (4, 2, 4)), ('gen', (4, 2, 4))] if tier == 'quick' else \
           [('asm', (4, 2, 4)), ('c64', (4, 2, 4)), ('c32', (4, 2, 4)), ('dxor', (4, 2, 4)), ('gen', (4, 2, 4)), ('c64', (3, 2, 3)), ('c32', (2, 2, 2)), ('gen', (4, 4, 4))]
    for i, (be, sh) in enumerate(cfgs):
        exe = world_exe('cppobj', be, sh, 'rel')
        o.add(D.run_batch(exe, n if i == 0 else n // 5, tier, seed, label='cppobj@%s-%d%d%d' % (be, *sh), crash_prop='C17'))
    # ASCON_NO_STL configuration: byte_array is the library's own reference-counted class there, and every byte_array
    # overload of the wrappers goes through it
    o.add(D.run_batch(world_exe('cppobj', 'asm', (4, 2, 4), 'nostl'), n // 3, tier, seed, label='cppobj@asm-424-nostl', crash_prop='C17'))
    o.extra['distinct_states_measure'] = 'visited (class, construction/keying path, overload, tamper kind, length class) tuples'
    return o.finish()


def check_C16(tier, seed):
    o = D.Outcome('C16', tier, seed)
    o.legend = LEGEND
    o.components = dict(real=['every C translation unit of /repo/src compiled with clang -O1 and load/store/function-entry callbacks (trace flavour); '
                              'the C++ wrapper sources are compiled with clang++ and the same callbacks and run through every cipher, hash and xof class'],
                        stub=['thread scheduling: real pthreads released one at a time by a seeded scheduler (Bernoulli pre-emption at rate 1/10..1/5000 or d change points)',
                              'memcpy/memset/explicit_bzero wrapped so that range accesses from library code reach the detector',
                              'getrandom() and the random devices (per-thread tapes, failing for a quarter of the operations, so results are schedule independent by construction of the harness)',
                              'asm backend only: ascon_permute wrapped and modelled as read+write of the 40 state bytes'])
    o.assumptions = ['the library contains no synchronisation, so any two accesses from different threads to the same byte with at least one write are a data race',
                     'races are decided at the granularity of clang -O1 loads/stores of the C sources (a race is a source-level property), not of the shipped -O3 binary',
                     'stack accesses are private to their thread; TLS blocks are outside the executable\'s static storage, so a legitimate __thread variable does not alarm',
                     'shared objects (ISAP keys, masked keys, constant inputs, source states, the storage descriptor) are handed to the library through pointers to const only, so any change of their bytes during a run is a violation (the output slices excepted)']
    n = 20000 if tier == 'quick' else 1000000
    cfgs = [('c64', (4, 2, 4), n), ('asm', (4, 2, 4), n // 4), ('c32', (3, 3, 3), n // 5), ('dxor', (4, 4, 4), n // 8), ('gen', (2, 1, 2), n // 8), ('asm', (3, 3, 3), n // 8)] if tier == 'quick' else \
           [('c64', (4, 2, 4), n), ('asm', (4, 2, 4), n // 4), ('c32', (3, 3, 3), n // 4), ('dxor', (4, 4, 4), n // 8), ('gen', (2, 1, 2), n // 8)]
    for be, sh, k in cfgs:
        exe = world_exe('threads', be, sh, 'trace')
        o.add(D.run_batch(exe, k, tier, seed, label='threads@%s-%d%d%d' % (be, *sh), crash_prop='C16'))
    o.extra['distinct_states_measure'] = 'distinct switch-sequence hashes (hash over (scheduler step, thread switched to) of every context switch of a run)'
    o.rule = ('one evaluation = one multi-threaded run under one seeded schedule; distinct+non-trivial when the plan digest is new, >= 3 operations ran and '
              '(>= 1 pre-emption fired or >= 2 threads took part)')
    return o.finish()


TWIN_WORLDS = [('stream', 60000), ('channel', 40000), ('prng', 6000), ('keystore', 20000), ('cppobj', 40000)]


def check_C13(tier, seed):
    o = D.Outcome('C13', tier, seed)
    o.legend = LEGEND
    o.components = dict(real=COMPONENTS_LIB['real'] + ['release flavour: the exact flags CMake uses for the shipped library (-O3), so an elided wipe would be elided here too'],
                        stub=['getrandom() (tape; part of the secrets that differ between the twin runs)', 'network / storage seams of the reused worlds'])
    o.assumptions = ['twin-secret oracle: the same plan is executed twice in one process with different keys, messages, fed entropy and entropy tape; '
                     'after every free / clear() / destructor the raw bytes of the object must be identical in the two executions',
                     'C++ objects are placement-constructed in harness-owned storage so that their bytes stay readable after the destructor',
                     'constant residue (e.g. a vtable pointer, zeroes, 0xD7 dirt that was never written) is allowed: only dependence on secrets is flagged',
                     'history-independence oracle (worlds stream, prng, C++ cipher classes): the freed bytes must equal what init+free alone leaves in the same '
                     'or identically filled memory; clear() of the masked C++ classes is exempt (it may leave a freshly masked zero key)']
    backends = ['asm', 'c32', 'c64', 'dxor', 'gen']
    scale = 1 if tier == 'quick' else 12
    for bi, be in enumerate(backends):
        for world, n in TWIN_WORLDS:
            exe = world_exe(world, be, (4, 2, 4), 'rel')
            k = n * scale // (1 if bi == 0 else 4 if tier == 'thorough' else 6)
            o.add(D.run_batch(exe, k, tier, seed, env={'ASIM_TWIN': '1'}, label='%s@%s-rel-twin' % (world, be), crash_prop='C12'))
    # object layouts depend on the share configuration (masked keys, masked words): reduced MAX_SHARES builds as well
    share_cfgs = [('asm', (3, 3, 3)), ('c64', (2, 1, 2)), ('c32', (3, 3, 3)), ('c64', (4, 3, 4))] if tier == 'quick' else \
                 [(be, sh) for be in ('asm', 'c64', 'c32') for sh in ((2, 1, 2), (2, 2, 2), (3, 3, 3), (3, 1, 3), (2, 2, 3), (4, 3, 4), (4, 4, 4))]
    for be, sh in share_cfgs:
        for world, n in (('channel', 12000), ('cppobj', 12000)):
            exe = world_exe(world, be, sh, 'rel')
            o.add(D.run_batch(exe, n * scale // 2, tier, seed, env={'ASIM_TWIN': '1'}, label='%s@%s-%d%d%d-rel-twin' % (world, be, *sh), crash_prop='C12'))
    o.extra['distinct_states_measure'] = 'union of the state tuples of the reused worlds (object type x operation x phase)'
    o.extra['objects_covered'] = ['ascon_state_t', 'incremental AEAD x3', 'hash/hasha', 'xof/xofa (plain, fixed, custom)', 'prf', 'hmac/hmaca', 'kmac/kmaca', 'kdf/kdfa',
                                  'hkdf/hkdfa', 'ascon_random_state_t', 'ISAP pre-computed keys x3', 'masked keys 128/160', 'C++ aead/masked/siv/isap classes (destructor and clear())',
                                  'C++ hash/hasha/xof/xofa and fixed-length templates']
    return o.finish()


def check_C12(tier, seed):
    o = D.Outcome('C12', tier, seed)
    o.legend = LEGEND
    o.components = dict(real=COMPONENTS_LIB['real'] + ['both command-line tools; everything compiled with gcc -O1 -fsanitize=address,undefined -fno-sanitize-recover (assembly files cannot be instrumented: '
                                                       'for them exact-size buffers end against PROT_NONE guard pages in a quarter of the runs)'],
                        stub=['all seams of the reused worlds (network, entropy, storage, simulated OS, allocator, tape TRNG)'])
    o.assumptions = ['only sanitizer reports, guard-page faults, crashes and canary damage are C12 verdicts; functional mismatches are ignored by this check',
                     'every output buffer is exact-size with poisoned canaries at seeded misalignments; null pointers are passed for empty optional inputs',
                     'hostile argument vectors: file names shorter than the suffix, of BUFSIZ-8..BUFSIZ+46 characters, empty; passwords of 1020..1031 characters; key files up to ~100 KB with NUL; '
                     'checksum lists with over-long lines, no trailing newline and binary junk; truncated containers']
    libw = ['stream', 'channel', 'prng', 'keystore', 'cppobj', 'masked']
    if tier == 'quick':
        plan = [('asm', (4, 2, 4), 'san', libw, 20000), ('c64', (3, 3, 3), 'san', libw, 10000), ('c32', (2, 1, 2), 'san', libw, 10000),
                ('dxor', (4, 4, 4), 'san', libw, 8000), ('gen', (4, 2, 4), 'san', libw, 8000),
                # key shares below the maximum, data shares below the key shares: array sizes and loop bounds differ
                ('asm', (3, 2, 4), 'san', ['masked', 'channel', 'cppobj'], 8000), ('c64', (2, 2, 3), 'san', ['masked', 'channel', 'cppobj'], 8000),
                ('c32', (2, 1, 4), 'san', ['masked', 'channel'], 8000), ('c64', (3, 1, 4), 'san', ['masked', 'channel'], 6000)]
        nb, ncli = 40000, 4000
    else:
        plan = [(be, sh, 'san', libw, 30000) for be, sh in [('asm', (4, 2, 4)), ('asm', (3, 1, 3)), ('asm', (2, 2, 2)), ('c64', (3, 3, 3)), ('c64', (4, 4, 4)), ('c64', (2, 1, 2)),
                                                             ('c64', (3, 2, 4)), ('c32', (2, 1, 2)), ('c32', (3, 3, 3)), ('c32', (4, 3, 4)), ('dxor', (4, 4, 4)), ('dxor', (3, 1, 3)),
                                                             ('gen', (4, 2, 4)), ('gen', (2, 2, 3))]]
        nb, ncli = 200000, 40000
    for be, sh, fl, worlds, n in plan:
        for w in worlds:
            exe = world_exe(w, be, sh, fl)
            o.add(D.run_batch(exe, n // (4 if w == 'prng' else 1), tier, seed, label='%s@%s-%d%d%d-%s' % (w, be, *sh, fl), crash_prop='C12'))
    o.add(D.run_batch(world_exe('bytes', 'asm', (4, 2, 4), 'san'), nb, tier, seed, label='bytes@asm-san', crash_prop='C12'))
    o.add(D.run_batch(world_exe('bytes', 'asm', (4, 2, 4), 'nostlsan'), nb, tier, seed, label='bytes@asm-nostlsan', crash_prop='C12'))
    o.add(D.run_batch(world_exe('cli', 'asm', (4, 2, 4), 'san'), ncli, tier, seed, env={'ASIM_HOSTILE': '1'}, label='cli@asm-san-hostile', crash_prop='C12', chunk=25))
    o.extra['configurations'] = sorted({b.label.split('@')[-1] for b in o.batches})
    o.extra['distinct_states_measure'] = 'union of the state tuples of the reused worlds'
    return o.finish()


C09_WORLDS = [('stream', 8000), ('channel', 8000), ('prng', 1500), ('keystore', 5000), ('cppobj', 6000), ('bytes', 4000)]


def _diff_shrink(exes, lines, tier, env, max_runs=200, max_s=60):
    """Shrink a plan while two configurations still produce different history digests."""
    t0 = time.time()
    runs = [0]

    def differ(ls):
        if runs[0] >= max_runs or time.time() - t0 > max_s:
            return False
        runs[0] += 1
        hs = []
        for e in exes:
            cl, h = D.exec_plan(e, ls, tier, env, 'C09')
            hs.append(h)
        return hs[0] != hs[1]

    cur = list(lines)
    n = 2
    while len(cur) >= 2 and runs[0] < max_runs and time.time() - t0 < max_s:
        size = max(1, len(cur) // n)
        removed = False
        i = 0
        while i < len(cur):
            cand = cur[:i] + cur[i + size:]
            if cand and differ(cand):
                cur = cand
                removed = True
            else:
                i += size
        if not removed:
            if size == 1:
                break
            n = min(len(cur), n * 2)
    return cur, runs[0]


def check_C09(tier, seed):
    import hashlib
    o = D.Outcome('C09', tier, seed)
    o.legend = LEGEND
    o.components = dict(real=COMPONENTS_LIB['real'] + ['one complete build of the library per configuration, each configured by /repo/CMakeLists.txt with the matching -DBACKEND_*/-D*_SHARES/-DCHECK_ACQUIRE_RELEASE options'],
                        stub=['seams of the reused worlds (network, entropy tape, storage, allocator)'])
    o.assumptions = ['the plan of run i is configuration independent, so "same seed => same history digest" is a checkable equality across builds',
                     'only results that are fully determined by the inputs enter the digests (outputs, statuses, lengths); raw masked shares and object bytes do not',
                     'world masked is not part of the differential replay (its plans depend on MAX_SHARES); masked AEAD outputs are compared through world channel',
                     'checker build: death of the process by the library\'s own abort() is the violation']
    if tier == 'quick':
        # every masked backend family (asm, c64, c32) sees data shares 1..4 somewhere in the cover
        cfgs = [('asm', (4, 2, 4)), ('c64', (4, 2, 4)), ('c32', (4, 2, 4)), ('dxor', (4, 2, 4)), ('gen', (4, 2, 4)), ('c64', (2, 1, 2)), ('c32', (3, 3, 3)), ('asm', (4, 4, 4)),
                ('c64', (4, 3, 4)), ('asm', (3, 3, 3)), ('c32', (4, 4, 4)), ('asm', (3, 1, 4)), ('c64', (4, 4, 4)), ('c32', (2, 1, 3))]
        chk = [(4, 2, 4), (2, 1, 2), (3, 3, 3)]
        scale = 1
    else:
        cfgs = [(be, (4, 2, 4)) for be in ('asm', 'c64', 'c32', 'dxor', 'gen')] + [(be, sh) for be in ('asm', 'c64', 'c32') for sh in B.ALL_SHARES if sh != (4, 2, 4)]
        chk = [sh for sh in B.ALL_SHARES]
        scale = 4
    known, fixed = D.load_known()
    violations = 0
    known_hit, replays = [], []
    ref_be, ref_sh = cfgs[0]
    pairs_compared = 0
    ref_hists, ref_exes, late_diffs = {}, {}, []
    for world, n in C09_WORLDS:
        n *= scale
        ref_exe = world_exe(world, ref_be, ref_sh, 'rel')
        ref = D.run_batch(ref_exe, n, tier, seed, label='%s@%s-%d%d%d' % (world, ref_be, *ref_sh), crash_prop='C09x')
        o.add(ref)
        ref_h = {r.idx: r.hist for r in ref.runs}
        ref_hists[world] = ref_h
        ref_exes[world] = (ref_exe, ref.env)
        for be, sh in cfgs[1:]:
            exe = world_exe(world, be, sh, 'rel')
            k = n if tier == 'quick' or sh == (4, 2, 4) else n // 4
            b = D.run_batch(exe, k, tier, seed, label='%s@%s-%d%d%d' % (world, be, *sh), crash_prop='C09x')
            o.add(b)
            bad = sorted(r.idx for r in b.runs if r.idx in ref_h and ref_h[r.idx] != r.hist)
            pairs_compared += sum(1 for r in b.runs if r.idx in ref_h)
            if not bad:
                continue
            late_diffs.append((world, be, sh, exe, bad, len(b.runs)))
    def report_divergence(world, be, sh, exe, bad, nruns_cfg):
            nonlocal violations
            ref_exe, ref_env = ref_exes[world]
            class _R: pass
            ref = _R(); ref.env = ref_env
            b = _R(); b.runs = [None] * nruns_cfg
            idx = bad[0]
            cls = D.VClass('C09', 'history_digest_differs_across_configurations', '%s:%s-%d%d%d' % (world, be, *sh))
            lines = D.gen_plan(ref_exe, idx, tier, ref.env)
            h = []
            for e in (ref_exe, exe, ref_exe, exe):
                h.append(D.exec_plan(e, lines, tier, ref.env, 'C09')[1])
            if h[0] != h[2] or h[1] != h[3] or h[0] == h[1]:
                raise D.HarnessError('cross-configuration divergence of run %d of %s did not reproduce in fresh processes: %s' % (idx, world, h))
            small, nruns = _diff_shrink((ref_exe, exe), lines, tier, ref.env)
            rp = os.path.join(VERIF, 'replays', 'C09-%s.json' % hashlib.sha1(cls.key().encode()).hexdigest()[:10])
            os.makedirs(os.path.dirname(rp), exist_ok=True)
            json.dump(dict(kind='diff', property='C09', violation_class=dict(cls._asdict()), world=world, tier=tier, env=ref.env,
                           configs=[[ref_be, list(ref_sh), 'rel'], [be, list(sh), 'rel']], run_index=idx, runs_differing=len(bad),
                           original_ops=len(lines), minimised_ops=len(small), shrink_reruns=nruns, plan=small), open(rp, 'w'), indent=1)
            replays.append(rp)
            kf = D.known_match(cls, known)
            if kf:
                print('KNOWN-FINDING: property=C09 %s [%s] replay=%s' % (kf.get('what', ''), cls.key(), rp))
                known_hit.append(cls.key())
            else:
                violations += 1
                print('VIOLATION property=C09 replay=%s' % rp)
                print('  class=%s detail=%d of %d runs give a different history digest than %s-%d%d%d; minimised plan has %d operations' % (
                    cls.key(), len(bad), len(b.runs), ref_be, *ref_sh, len(small)))
    for d in late_diffs:
        report_divergence(*d)
    late_diffs = []
    # (2) the acquire/release checker build under the same interleaved multi-object histories
    for sh in chk:
        for world, n in C09_WORLDS:
            if world == 'bytes':
                continue
            exe = world_exe(world, 'chk', sh, 'rel')
            b = D.run_batch(exe, n * scale // 2, tier, seed, label='%s@chk-%d%d%d' % (world, *sh), crash_prop='C09')
            o.add(b)
            # the checker build is one more configuration: its digests must equal the reference as well
            rh = ref_hists.get(world, {})
            bad = sorted(r.idx for r in b.runs if r.idx in rh and rh[r.idx] != r.hist)
            pairs_compared += sum(1 for r in b.runs if r.idx in rh)
            if bad:
                late_diffs.append((world, 'chk', sh, exe, bad, len(b.runs)))
        exe = world_exe('masked', 'chk', sh, 'rel')
        o.add(D.run_batch(exe, 4000 * scale, tier, seed, label='masked@chk-%d%d%d' % sh, crash_prop='C09'))
    for d in late_diffs:
        report_divergence(*d)
    o.extra['configurations'] = ['%s-%d%d%d' % (be, *sh) for be, sh in cfgs] + ['chk-%d%d%d' % sh for sh in chk]
    o.extra['cross_configuration_pairs_compared'] = pairs_compared
    o.extra['distinct_states_measure'] = 'union of the state tuples of the reused worlds, per configuration'
    o.extra_replays = replays
    rc = o.finish()
    if violations or known_hit:
        # merge the differential verdicts into the evidence written by finish()
        ev = json.load(open(os.path.join(VERIF, 'evidence', 'C09.json')))
        ev['violations'] = ev.get('violations', 0) + violations
        ev['coverage']['known_findings_hit'] += known_hit
        ev['coverage']['replays'] += [os.path.relpath(p, VERIF) for p in replays]
        json.dump(ev, open(os.path.join(VERIF, 'evidence', 'C09.json'), 'w'), indent=1)
    return 1 if (violations or rc) else 0


def replay_diff(d):
    exes = [world_exe(d['world'], c[0], tuple(c[1]), c[2]) for c in d['configs']]
    hs = [D.exec_plan(e, d['plan'], d['tier'], d.get('env', {}), 'C09')[1] for e in exes]
    if hs[0] != hs[1]:
        print('REPRODUCED property=C09 class=%s digests %s vs %s' % ('|'.join(d['violation_class'].values()), hs[0], hs[1]))
        return 1
    print('NOT-REPRODUCED property=C09: both configurations give history digest %s' % hs[0])
    return 0


CHECKS = {
    'C09': check_C09,
    'C12': check_C12,
    'C13': check_C13,
    'C16': check_C16,
    'C17': check_C17,
    'C06': check_C06,
    'C10': check_C10,
    'C20': check_C20,
    'C19': check_C19,
    'C15': check_C15,
    'C02': check_C02,
    'C07': check_C07,
    'C14': check_C14,
}

