"""Build matrix for the simulator.

Every configuration is configured by /repo's own CMakeLists.txt (configure
only, with CMAKE_EXPORT_COMPILE_COMMANDS) so that source lists, config.h and
per-backend flags come from the repository's working tree; compilation is done
here so that the flavour (release / sanitised / traced) and the compiler can be
chosen per world.  Objects are rebuilt when the command line or the content of
any file named in the compiler's depfile changed (content hashes, not mtimes).
"""
import hashlib, json, os, re, shlex, subprocess, sys, shutil, threading
from concurrent.futures import ThreadPoolExecutor

REPO = os.environ.get('VERIF_REPO', '/repo')
VERIF = os.path.dirname(os.path.dirname(os.path.abspath(__file__)))
BUILD = os.path.join(VERIF, 'build')
JOBS = int(os.environ.get('VERIF_JOBS', '16'))

BACKENDS = {
    'asm': [],
    'c64': ['-DBACKEND_C64=ON'],
    'c32': ['-DBACKEND_C32=ON'],
    'dxor': ['-DBACKEND_DIRECT_XOR=ON'],
    'gen': ['-DBACKEND_GENERIC=ON'],
    'chk': ['-DCHECK_ACQUIRE_RELEASE=ON'],
}

FLAVOURS = {
    # compiler for C, compiler for C++, extra flags, flags removed
    'rel': dict(cc='gcc', cxx='g++', add=[], strip=[]),
    'o1': dict(cc='gcc', cxx='g++', add=['-O1'], strip=['-O3']),
    'san': dict(cc='gcc', cxx='g++',
                add=['-O1', '-g', '-fno-omit-frame-pointer',
                     '-fsanitize=address,undefined',
                     '-fno-sanitize-recover=all'],
                strip=['-O3']),
    'trace': dict(cc='clang', cxx='clang++',
                  add=['-O1', '-g',
                       '-fsanitize-coverage=func,trace-pc-guard,trace-loads,trace-stores'],
                  strip=['-O3']),
    'nostl': dict(cc='gcc', cxx='g++', add=['-O1', '-g', '-DASCON_NO_STL'], strip=['-O3']),
    'nostlsan': dict(cc='gcc', cxx='g++',
                     add=['-O1', '-g', '-DASCON_NO_STL', '-fno-omit-frame-pointer',
                          '-fsanitize=address,undefined', '-fno-sanitize-recover=all'],
                     strip=['-O3']),
}


class BuildError(Exception):
    pass


_hash_cache = {}


def file_hash(path):
    try:
        st = os.stat(path)
    except OSError:
        return None
    key = (path, st.st_mtime_ns, st.st_size)
    h = _hash_cache.get(key)
    if h is None:
        with open(path, 'rb') as f:
            h = hashlib.sha1(f.read()).hexdigest()
        _hash_cache[key] = h
    return h


def cfg_name(backend, shares, flavour):
    return '%s-%d%d%d-%s' % (backend, shares[0], shares[1], shares[2], flavour)


def parse_depfile(path):
    try:
        txt = open(path).read()
    except OSError:
        return None
    txt = txt.replace('\\\n', ' ')
    deps = []
    for line in txt.splitlines():
        if ':' not in line:
            continue
        rhs = line.split(':', 1)[1]
        deps += rhs.split()
    return [d for d in deps if not d.startswith('/usr/')]


def _compile(job):
    cmd, src, obj = job
    meta_path = obj + '.meta'
    dep_path = obj + '.d'
    cmd_str = ' '.join(cmd)
    try:
        meta = json.load(open(meta_path))
        if meta['cmd'] == cmd_str and os.path.exists(obj) and \
                all(file_hash(f) == h for f, h in meta['deps']):
            return (obj, False, '')
    except (OSError, ValueError, KeyError):
        pass
    os.makedirs(os.path.dirname(obj), exist_ok=True)
    p = subprocess.run(cmd + ['-MD', '-MF', dep_path, '-c', src, '-o', obj],
                       stdout=subprocess.PIPE, stderr=subprocess.STDOUT, text=True)
    if p.returncode != 0:
        return (obj, True, 'FAILED: %s\n%s' % (cmd_str + ' -c ' + src, p.stdout))
    deps = parse_depfile(dep_path) or [src]
    if src not in deps:
        deps.append(src)
    json.dump({'cmd': cmd_str, 'deps': [(d, file_hash(d)) for d in sorted(set(deps))]},
              open(meta_path, 'w'))
    return (obj, True, p.stdout)


def run_jobs(jobs):
    errs = []
    rebuilt = 0
    with ThreadPoolExecutor(JOBS) as ex:
        for obj, did, out in ex.map(_compile, jobs):
            if out.startswith('FAILED'):
                errs.append(out)
            rebuilt += 1 if did else 0
    if errs:
        raise BuildError('\n'.join(errs))
    return rebuilt


class Config:
    """One configured + compiled copy of the library (and optionally the apps)."""

    def __init__(self, backend='asm', shares=(4, 2, 4), flavour='rel'):
        self.backend, self.shares, self.flavour = backend, tuple(shares), flavour
        self.name = cfg_name(backend, shares, flavour)
        self.dir = os.path.join(BUILD, self.name)
        self.cm = os.path.join(BUILD, 'cm-%s-%d%d%d' % (backend, *shares))
        self.lib_objs = []
        self.app_objs = {}
        self.incs = []
        self.defs = []

    _cm_locks = {}
    _cm_locks_guard = threading.Lock()

    def configure(self):
        """cmake configure-only; re-run when CMake inputs changed.  Flavours of one (backend, shares) share the
        configured directory, and libraries are built by several threads: one configure at a time per directory."""
        with Config._cm_locks_guard:
            lock = Config._cm_locks.setdefault(self.cm, threading.Lock())
        with lock:
            self._configure_locked()

    def _configure_locked(self):
        stamp = os.path.join(self.cm, 'verif.stamp')
        inputs = [os.path.join(REPO, p) for p in
                  ('CMakeLists.txt', 'config.h.in', 'src/CMakeLists.txt',
                   'src/ascon/CMakeLists.txt', 'src/ascon/version.h.in',
                   'apps/CMakeLists.txt', 'apps/asconcrypt/CMakeLists.txt',
                   'apps/asconsum/CMakeLists.txt', 'test/CMakeLists.txt')]
        sig = json.dumps([(p, file_hash(p)) for p in inputs])
        try:
            if open(stamp).read() == sig and \
                    os.path.exists(os.path.join(self.cm, 'compile_commands.json')):
                return
        except OSError:
            pass
        shutil.rmtree(self.cm, ignore_errors=True)
        os.makedirs(self.cm)
        args = ['cmake', '-G', 'Ninja', '-DCMAKE_EXPORT_COMPILE_COMMANDS=ON',
                '-DCMAKE_C_COMPILER=gcc', '-DCMAKE_CXX_COMPILER=g++',
                '-DKEY_SHARES=%d' % self.shares[0], '-DDATA_SHARES=%d' % self.shares[1],
                '-DMAX_SHARES=%d' % self.shares[2]] + BACKENDS[self.backend] + [REPO]
        p = subprocess.run(args, cwd=self.cm, stdout=subprocess.PIPE,
                           stderr=subprocess.STDOUT, text=True)
        if p.returncode != 0:
            raise BuildError('cmake configure failed for %s:\n%s' % (self.name, p.stdout))
        open(stamp, 'w').write(sig)

    def _entries(self, target):
        cc = json.load(open(os.path.join(self.cm, 'compile_commands.json')))
        tag = '/CMakeFiles/%s.dir/' % target
        return [e for e in cc if tag in e['command'].split(' -o ')[1].split()[0]]

    def _job(self, e, sub, extra=(), cxx_only_gxx=True):
        fl = FLAVOURS[self.flavour]
        toks = shlex.split(e['command'])
        src = e['file']
        is_cxx = src.endswith('.cpp')
        is_asm = src.endswith('.S')
        out = []
        skip = False
        for t in toks[1:]:
            if skip:
                skip = False
                continue
            if t in ('-o',):
                skip = True
                continue
            if t == '-c' or t == src or t in fl['strip']:
                continue
            if t.startswith('-Dascon_EXPORTS'):
                continue
            out.append(t)
        comp = fl['cxx'] if is_cxx else fl['cc']
        add = list(fl['add'])
        if is_asm:
            # assembly: no sanitizer / coverage instrumentation possible
            add = [a for a in add if not a.startswith('-fsanitize')]
            comp = 'gcc'
        rel = os.path.relpath(src, REPO).replace('/', '_')
        obj = os.path.join(self.dir, sub, rel + '.o')
        return ([comp] + out + add + list(extra), src, obj)

    def build_lib(self):
        self.configure()
        ents = self._entries('ascon_static')
        jobs = [self._job(e, 'lib') for e in ents]
        run_jobs(jobs)
        self.lib_objs = [j[2] for j in jobs]
        # include dirs for harness code
        toks = shlex.split(ents[0]['command'])
        self.incs = [t for t in toks if t.startswith('-I')]
        self.defs = [t for t in toks if t.startswith('-D') and not t.startswith('-Dascon_EXPORTS')]
        return self

    def build_app(self, target, extra):
        """Compile one of the command-line tools with e.g. -Dmain=... renames."""
        self.configure()
        jobs = [self._job(e, 'app-' + target, extra) for e in self._entries(target)]
        run_jobs(jobs)
        self.app_objs[target] = [j[2] for j in jobs]
        return self.app_objs[target]

    def lib_without(self, *suffixes):
        return [o for o in self.lib_objs if not any(o.endswith(s + '.o') for s in suffixes)]

    def flavour_link_flags(self):
        fl = FLAVOURS[self.flavour]
        return [a for a in fl['add'] if a.startswith('-fsanitize=')]

    def build_harness(self, name, sources, extra_cflags=(), link_objs=None, ldflags=(),
                      cxx='g++', std='-std=gnu++17'):
        """Compile harness sources (C++) and link with the library objects."""
        fl = FLAVOURS[self.flavour]
        hflags = ['-O1', '-g', '-Wall', '-Wno-unused-function', '-fno-lifetime-dse', '-I' + os.path.join(VERIF, 'asim'),
                  '-DASIM_CONFIG="%s"' % self.name,
                  '-DASIM_BACKEND_%s=1' % self.backend.upper(),
                  '-DASIM_KEY_SHARES=%d' % self.shares[0],
                  '-DASIM_DATA_SHARES=%d' % self.shares[1],
                  '-DASIM_MAX_SHARES=%d' % self.shares[2]]
        hflags += [a for a in fl['add'] if a.startswith('-fsanitize=') or a.startswith('-fno-sanitize')
                   or a == '-fno-omit-frame-pointer' or a == '-DASCON_NO_STL']
        jobs = []
        for s in sources:
            comp = cxx if s.endswith('.cpp') else 'gcc'
            st = [std] if s.endswith('.cpp') else []
            obj = os.path.join(self.dir, 'h-' + name, os.path.basename(s) + '.o')
            jobs.append(([comp] + st + self.incs + self.defs + hflags + list(extra_cflags), s, obj))
        run_jobs(jobs)
        objs = [j[2] for j in jobs]
        exe = os.path.join(self.dir, 'w_' + name)
        libs = self.lib_objs if link_objs is None else link_objs
        rsp = exe + '.rsp'
        open(rsp, 'w').write('\n'.join(objs + libs))
        cmd = [cxx, '-o', exe, '@' + rsp] + self.flavour_link_flags() + list(ldflags) + \
              ['-Wl,-z,noexecstack', '-lpthread']
        sig = hashlib.sha1((' '.join(cmd) + ''.join(file_hash(o) or '' for o in objs + libs)).encode()).hexdigest()
        sigf = exe + '.sig'
        try:
            if open(sigf).read() == sig and os.path.exists(exe):
                return exe
        except OSError:
            pass
        p = subprocess.run(cmd, stdout=subprocess.PIPE, stderr=subprocess.STDOUT, text=True)
        if p.returncode != 0:
            raise BuildError('link failed: %s\n%s' % (' '.join(cmd), p.stdout))
        open(sigf, 'w').write(sig)
        return exe


ALL_SHARES = [(k, d, m) for m in (2, 3, 4) for k in range(2, m + 1) for d in range(1, k + 1)]
# cmake clamps to MAX_SHARES; the distinct effective combinations are those with
# 2 <= key <= max, 1 <= data <= key.
SHARE_COVER = [(4, 2, 4), (2, 1, 2), (3, 3, 3), (4, 4, 4), (3, 1, 4), (2, 2, 3)]


def clean():
    shutil.rmtree(BUILD, ignore_errors=True)
