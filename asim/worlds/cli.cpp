// World `cli`: asconcrypt and asconsum inside a simulated OS (C19; feeds C12).
// Each tool invocation is a forked simulated process running the tool's real
// main() against the VFS in a shared arena, under a script of syscall faults
// and crash points attached to that invocation.
#define ASIM_MAIN 1
#include "core/asim.h"
#include "seams/simos.h"
#include "seams/simrng.h"
#include <ascon/hash.h>
#include <ascon/xof.h>
#include <ascon/pbkdf2.h>
#include <ascon/siv.h>
#include <ascon/aead.h>
#include <sys/wait.h>
#include <fcntl.h>
#include <memory>
#include <set>

using namespace asim;

extern "C" int asconcrypt_main(int argc, char **argv);
extern "C" int asconsum_main(int argc, char **argv);
extern "C" int __real_open(const char *path, int flags, ...);
extern "C" void __real_ascon_pbkdf2(unsigned char *out, size_t outlen, const unsigned char *password, size_t passwordlen,
                                    const unsigned char *salt, size_t saltlen, unsigned long count);
static unsigned long g_pbkdf2_rounds = 0; // 0 = as requested by the caller
extern "C" void __wrap_ascon_pbkdf2(unsigned char *out, size_t outlen, const unsigned char *password, size_t passwordlen,
                                    const unsigned char *salt, size_t saltlen, unsigned long count)
{
    // tuning knob of the simulation: the real function runs, with fewer iterations in most runs
    __real_ascon_pbkdf2(out, outlen, password, passwordlen, salt, saltlen, g_pbkdf2_rounds && count > 16 ? g_pbkdf2_rounds : count);
}

static const size_t BUFSZ = BUFSIZ;

struct Meta {
    int kind = 0;       // 0 plain/other, 1 encrypted by a successful run, 2 debris of a failed/crashed run
    Bytes plain;        // for kind 1: the plaintext
    std::string pw;     // for kind 1
    Bytes exact;        // bytes as produced (to detect tampering)
    int64_t pwidx = 0;
};

struct Result {
    int exit_code = -1;
    bool rng_failed = false; // the entropy source delivered a permanent failure to the process
    bool crashed = false;   // killed by the scripted crash point
    bool cap_hit = false;
    std::string out;        // captured stdout
    long fired[FK_NKINDS];
    bool hard = false;
    long calls[SYS_NKINDS];
};

struct CliWorld : World {
    const char *name() const override { return "cli"; }

    // ---- names, passwords ---------------------------------------------------
    static std::string file_name(int64_t idx)
    {
        switch (idx % 12) {
        case 0: return "a.bin";
        case 1: return "report.txt";
        case 2: return "dir/with space.dat";
        case 3: return "x";
        case 4: return "ab";              // shorter than the ".ascon" suffix
        case 5: return "data.tar";
        case 6: return std::string(180, 'n') + ".bin";
        case 7: return "abcde";
        case 8: return "m.ascon.bak";
        case 9: return "UPPER.BIN";
        case 10: return "f10";
        default: return "zz-" + std::to_string(idx % 7) + ".raw";
        }
    }
    // idx 0..9: ten unrelated passwords; idx 10..19: the neighbour of password(idx - 10) - the same string with its last
    // character changed (even idx) or with one character appended (odd idx), so the two differ only at the very end
    static std::string password(int64_t idx)
    {
        if (idx >= 10) {
            std::string b = password(idx - 10);
            if ((idx & 1) || b.empty()) b += 'Q';
            else b[b.size() - 1] = b[b.size() - 1] == 'Z' ? 'Y' : 'Z';
            return b;
        }
        static const char *alpha = "abcdefghijklmnopqrstuvwxyzABCDEFGHIJKLMNOPQRSTUVWXYZ0123456789%$ -_";
        size_t len;
        switch (idx % 10) {
        case 0: len = 8; break;
        case 1: len = 1; break;
        case 2: len = 40; break;
        case 3: len = 0; break;
        case 4: len = 1023; break;
        case 5: len = 1024; break; // too long
        case 6: len = 1025; break; // too long
        case 7: len = 16; break;
        default: len = 5 + (size_t)(idx % 7); break;
        }
        Bytes b = bytes_of(len, (uint64_t)idx * 977 + 5);
        std::string s(len, 'x');
        for (size_t i = 0; i < len; ++i) s[i] = alpha[b[i] % 67];
        return s;
    }
    static size_t file_len(Rng &r)
    {
        switch (r.below(14)) {
        case 0: return 0;
        case 1: return 1;
        case 2: return 15;
        case 3: return 16;
        case 4: return 17;
        case 5: return BUFSZ - 17;
        case 6: return BUFSZ - 16;
        case 7: return BUFSZ - 15;
        case 8: return BUFSZ - 1;
        case 9: return BUFSZ;
        case 10: return BUFSZ + 1;
        case 11: return 2 * (BUFSZ - 16) + r.below(3) - 1;
        case 12: return 2 * BUFSZ + r.below(3) - 1;
        default: return r.below(3 * BUFSZ);
        }
    }

    void gen_fault(Rng &r, std::vector<int64_t> &a, bool faulty, bool reader_heavy)
    {
        // two fault slots: (sys, ordinal, kind, arg)
        for (int k = 0; k < 2; ++k) {
            if (!faulty || !r.chance(k == 0 ? 1 : 1, k == 0 ? 2 : 5)) { a.insert(a.end(), {0, 0, 0, 0}); continue; }
            int sys = r.chance(1, 2) ? (reader_heavy ? SYS_READ : SYS_WRITE) : (int)r.pickv({SYS_READ, SYS_WRITE, SYS_OPEN_R, SYS_OPEN_W});
            int kind;
            if (sys == SYS_READ) kind = (int)r.pickv({FK_EINTR, FK_EAGAIN, FK_SHORT, FK_EIO, FK_EIO});
            else if (sys == SYS_WRITE) kind = (int)r.pickv({FK_EINTR, FK_EAGAIN, FK_SHORT, FK_EIO, FK_ENOSPC, FK_ENOSPC, FK_CRASH});
            else kind = FK_EACCES;
            int64_t arg = kind == FK_SHORT ? 1 + (int64_t)r.below(40) : kind == FK_CRASH ? (int64_t)r.below(9000) : 1 + (int64_t)r.below(4);
            a.insert(a.end(), {sys, 1 + (int64_t)r.below(7), kind, arg});
        }
    }

    void gen(Rng &r, Plan &pl, bool thorough) override
    {
        bool faulty = !r.chance(1, 4);
        pl.add("knob.chunk", {r.chance(1, 3) ? r.pickv({1, 7, 16, 100, 4096, 8191}) : 0});
        pl.add("knob.eintr", {faulty && r.chance(1, 4) ? 2 + (int64_t)r.below(5) : 0});
        pl.add("knob.rounds", {r.chance(1, 12) ? 0 : 2 + (int64_t)r.below(3)});
        pl.add("knob.rngfail", {0});
        int nfiles = 1 + (int)r.below(3);
        std::vector<int64_t> names;
        for (int i = 0; i < nfiles; ++i) {
            int64_t nm = (int64_t)r.below(12);
            names.push_back(nm);
            pl.add("file", {nm, (int64_t)file_len(r), (int64_t)(r.next() >> 1)});
        }
        int nops = thorough ? 4 + (int)r.below(8) : 3 + (int)r.below(5);
        std::vector<std::pair<int64_t, int64_t>> encrypted; // (name idx, pw idx)
        if (thorough && r.chance(1, 5)) {
            // systematic sweep scenario on a small file
            int64_t nm = (int64_t)r.pickv({0, 1, 5, 9, 10});
            pl.add("file", {nm, (int64_t)r.pickv({0, 1, 15, 16, 17, 40, 100}), (int64_t)(r.next() >> 1)});
            pl.add("enc", {nm, r.pickv({0, 1, 2, 7}), 3, 0, 0, 0, 0, 0, 0, 0, 0, 0, 0});
            int ns = 1 + (int)r.below(3);
            for (int k = 0; k < ns; ++k) pl.add("sweep", {nm, (int64_t)r.below(6), (int64_t)(r.next() >> 1)});
            return;
        }
        unsigned hostile_pct = getenv("ASIM_HOSTILE") ? 40 : 4;
        for (int i = 0; i < nops; ++i) {
            unsigned c = (unsigned)r.below(100);
            int64_t nm = names[r.below(names.size())];
            if (r.below(100) < 3) { pl.add("usage", {(int64_t)r.below(8), nm}); continue; }
            if (r.below(100) < hostile_pct) { pl.add("hostile", {(int64_t)r.below(10), (int64_t)r.below(40), (int64_t)(r.next() >> 1)}); continue; }
            if (c < 30) {
                int64_t pw = r.chance(1, 6) ? (int64_t)r.below(20) : r.pickv({0, 1, 2, 3, 4, 7, 8});
                // flags: bit0 explicit -e, bit1 -o given, bit2 keyfile instead of -p, bit3 stdin/stdout
                int64_t flags = (int64_t)r.below(8) | (r.chance(1, 10) ? 8 : 0);
                std::vector<int64_t> a = {nm, pw, flags, (int64_t)r.below(4), (int64_t)(r.chance(1, 10) && faulty ? 1 + r.below(2) : 0)};
                gen_fault(r, a, faulty, false);
                a.push_back((int64_t)r.chance(1, 4)); // arg 13: an older, longer file already sits at the output name
                Op o; o.name = "enc"; o.a = a; pl.ops.push_back(o);
                encrypted.push_back({nm, pw});
            } else if (c < 60 && !encrypted.empty()) {
                auto e = encrypted[r.below(encrypted.size())];
                // wrong password: an unrelated one, or the neighbour of the right one (differs only in its last character)
                int64_t pw = r.chance(1, 6) ? (r.chance(1, 2) ? (int64_t)r.below(10) : (e.second + 10) % 20) : e.second;
                int64_t flags = (int64_t)r.below(8) | (r.chance(1, 10) ? 8 : 0);
                std::vector<int64_t> a = {e.first, pw, flags, (int64_t)r.below(4), 0};
                gen_fault(r, a, faulty, true);
                a.push_back((int64_t)r.chance(1, 4)); // arg 13: an older, longer file already sits at the output name
                Op o; o.name = "dec"; o.a = a; pl.ops.push_back(o);
            } else if (c < 72 && !encrypted.empty()) {
                auto e = encrypted[r.below(encrypted.size())];
                pl.add("tamper", {e.first, (int64_t)r.below(4), (int64_t)(r.next() >> 1)});
            } else if (c < 80) {
                std::vector<int64_t> a = {(int64_t)r.below(3), (int64_t)(faulty && r.chance(1, 6))};
                gen_fault(r, a, faulty, false);
                Op o; o.name = "gen"; o.a = a; pl.ops.push_back(o);
            } else if (c < 90) {
                std::vector<int64_t> a = {(int64_t)r.below(4), (int64_t)(1 + r.below(7)) | (r.chance(1, 3) ? 8 : 0) | (r.chance(1, 5) ? 16 : 0), (int64_t)r.chance(1, 8)};
                // asconsum reads through stdio: faults on SYS_FREAD / SYS_FOPEN
                if (faulty && r.chance(1, 3)) a.insert(a.end(), {(int64_t)r.pickv({SYS_FREAD, SYS_FREAD, SYS_FOPEN}), 1 + (int64_t)r.below(4), (int64_t)r.pickv({FK_EIO, FK_SHORT}), 1 + (int64_t)r.below(30)});
                else a.insert(a.end(), {0, 0, 0, 0});
                Op o; o.name = "sum"; o.a = a; pl.ops.push_back(o);
            } else if (c < 93) {
                // several input files on one command line: encrypt them together (with faults), then decrypt them together
                std::vector<int64_t> a = {(int64_t)(2 + r.below(2)), (int64_t)r.pickv({0, 1, 2, 7, 8}), (int64_t)(r.chance(1, 2) ? 1 + r.below(3) : 0), (int64_t)(r.next() >> 1)};
                gen_fault(r, a, faulty, false);
                Op o; o.name = "multi"; o.a = a; pl.ops.push_back(o);
            } else if (c < 97) {
                // write a checksum list for the current files, optionally spoil something, then check it
                {
                    std::vector<int64_t> a = {(int64_t)r.below(4), (int64_t)(1 + r.below(7)), (int64_t)r.below(12), (int64_t)(r.next() >> 1)};
                    for (int k = 0; k < 2; ++k) { // transient read faults only (asconsum reads through stdio: short fread transfers)
                        if (!faulty || !r.chance(1, 2)) { a.insert(a.end(), {0, 0, 0, 0}); continue; }
                        a.insert(a.end(), {SYS_FREAD, 1 + (int64_t)r.below(7), FK_SHORT, 1 + (int64_t)r.below(40)});
                    }
                    Op o; o.name = "chk"; o.a = a; pl.ops.push_back(o);
                }
            } else {
                int64_t n2 = (int64_t)r.below(12);
                names.push_back(n2);
                pl.add("file", {n2, (int64_t)file_len(r), (int64_t)(r.next() >> 1)});
            }
        }
    }

    // ---- execution ----------------------------------------------------------
    struct Ctx {
        Run *run;
        std::map<std::string, Meta> meta;
        int chunk, eintr;
        unsigned long rounds;
        std::vector<std::string> plain_names;
    };

    static Bytes vfs_get(const std::string &n, bool *exists)
    {
        int i = vfs_find(n.c_str());
        *exists = i >= 0;
        if (i < 0) return Bytes();
        return Bytes(g_os->files[i].data, g_os->files[i].data + g_os->files[i].size);
    }
    static bool vfs_exists(const std::string &n) { return vfs_find(n.c_str()) >= 0; }
    static std::set<std::string> vfs_names()
    {
        std::set<std::string> v;
        for (int i = 0; i < VFS_MAXFILES; ++i) if (g_os->files[i].used) v.insert(g_os->files[i].name);
        return v;
    }
    // Where the output goes when no -o is given is the tool's choice (today: name + ".ascon" / name without it /
    // name + ".decrypted").  If the expected name is absent after a run, the one file that newly appeared is the output.
    static std::string discover_output(const std::set<std::string> &before, const std::string &expected)
    {
        if (vfs_exists(expected)) return expected;
        std::string found;
        int n = 0;
        for (auto &nm : vfs_names()) if (!before.count(nm)) { found = nm; ++n; }
        return n == 1 ? found : expected;
    }

    static std::string child_err_path()
    {
        static std::string p;
        static pid_t owner = 0;
        if (owner != getppid() && owner != getpid()) { owner = getpid(); }
        if (p.empty()) { const char *d = getenv("ASIM_SCRATCH"); p = std::string(d ? d : "/tmp") + "/asim-child-" + std::to_string((long)getpid()) + ".err"; }
        return p;
    }
    static void dump_child_err()
    {
        std::ifstream in(child_err_path());
        std::string line;
        int n = 0;
        while (std::getline(in, line) && n++ < 400) fprintf(stderr, "%s\n", line.c_str());
        fflush(stderr);
    }

    // Run one tool invocation as a simulated process.
    static Result run_tool(Ctx &c, int tool, const std::vector<std::string> &args, const Op *faultsrc, size_t fault_at,
                           int stdin_file, int rng_fail)
    {
        simos_reset_process();
        g_os->io_chunk = c.chunk;
        g_os->eintr_every = c.eintr;
        g_os->stdin_file = stdin_file;
        if (faultsrc)
            for (size_t k = fault_at; k + 3 < faultsrc->a.size() && k < fault_at + 8; k += 4) {
                int64_t sys = faultsrc->arg(k), ord = faultsrc->arg(k + 1), kind = faultsrc->arg(k + 2), arg = faultsrc->arg(k + 3);
                if (kind > 0 && kind < FK_NKINDS && sys >= 0 && sys < SYS_NKINDS && ord > 0) simos_add_fault((int)sys, (int)ord, (int)kind, (long)arg);
            }
        g_pbkdf2_rounds = c.rounds;
        (void)child_err_path();
        fflush(stdout);
        fflush(stderr);
        pid_t pid = fork();
        if (pid < 0) { perror("fork"); _exit(2); }
        if (pid == 0) {
            // the simulated process
            // the simulated process's stderr goes to a scratch file owned by this worker; it is shown only when
            // the process dies abnormally (sanitizer report, signal)
            int efd = __real_open(child_err_path().c_str(), O_WRONLY | O_CREAT | O_TRUNC, 0600);
            const char *keep = getenv("ASIM_CHILD_STDERR");
            if (efd >= 0 && !keep) dup2(efd, 2);
            simrng_reset(simrng_cur(), 0xC11C11 ^ (uint64_t)g_os->calls[0], SIMRNG_RANDOM);
            if (rng_fail) simrng_arm(simrng_cur(), 0, rng_fail == 1 ? 1 : -2);
            simrng_cur()->perm_observer = &g_os->rng_perm_fired; // whether a scripted failure is ever delivered depends on how often the tool asks
            simos_child_begin();
            std::vector<char *> argv;
            std::vector<std::string> store = args;
            for (auto &s : store) argv.push_back(&s[0]);
            argv.push_back(nullptr);
            int rc = tool == 0 ? asconcrypt_main((int)store.size(), argv.data()) : asconsum_main((int)store.size(), argv.data());
            simos_child_end();
            _exit(rc & 0xff);
        }
        int st = 0;
        waitpid(pid, &st, 0);
        Result r;
        memcpy(r.fired, g_os->fired, sizeof r.fired);
        memcpy(r.calls, g_os->calls, sizeof r.calls);
        r.hard = g_os->hard_fault_fired != 0;
        r.rng_failed = g_os->rng_perm_fired > 0;
        r.cap_hit = g_os->cap_hit != 0;
        r.out.assign((const char *)g_os->stdout_buf, g_os->stdout_len);
        if (WIFEXITED(st)) {
            r.exit_code = WEXITSTATUS(st);
            if (r.exit_code == 137 && r.fired[FK_CRASH]) r.crashed = true;
            if (r.exit_code == 77 || r.exit_code == 78) {
                // sanitizer report inside the simulated process: re-raise it as this worker's death
                dump_child_err();
                fprintf(stderr, "simulated process died with sanitizer exit code %d (argv:", r.exit_code);
                for (auto &s : args) fprintf(stderr, " [%.60s%s]", s.c_str(), s.size() > 60 ? "..." : "");
                fprintf(stderr, ")\n");
                _exit(r.exit_code);
            }
        } else if (WIFSIGNALED(st)) {
            dump_child_err();
            fprintf(stderr, "simulated process killed by signal %d (argv:", WTERMSIG(st));
            for (auto &s : args) fprintf(stderr, " [%.60s%s]", s.c_str(), s.size() > 60 ? "..." : "");
            fprintf(stderr, ")\n");
            fflush(stderr);
            signal(WTERMSIG(st), SIG_DFL);
            raise(WTERMSIG(st));
            _exit(139);
        }
        static const char *fk[] = {"", "fs.eintr", "fs.eagain", "fs.short_io", "fs.eio", "fs.enospc", "fs.open_fail", "fs.crash_after_write"};
        for (int k = 1; k < FK_NKINDS; ++k) if (r.fired[k]) c.run->fault(fk[k], (uint64_t)r.fired[k]);
        return r;
    }

    // Is `f` an encryption of `plain` under `pw`?  Decided by the property's own words - "asconcrypt decrypts what
    // it encrypted back to the identical file" - i.e. by a fault-free run of the tool's real decryption in a
    // fresh simulated process, not by knowledge of the container format or of the KDF parameters.
    static bool container_valid(Ctx &c, const Bytes &f, const std::string &pw, const Bytes &plain)
    {
        return container_valid(c, f, std::vector<std::string>{"-p", pw}, plain);
    }
    static bool container_valid(Ctx &c, const Bytes &f, const std::vector<std::string> &pwargs, const Bytes &plain)
    {
        // save the observations of the invocation being judged
        vfs_put("verify.ascon", f.data(), f.size());
        vfs_remove("verify.out");
        int chunk = c.chunk, eintr = c.eintr;
        c.chunk = 0;
        c.eintr = 0;
        std::map<std::string, uint64_t> faults = c.run->faults;
        std::vector<std::string> vargs = {"asconcrypt", "-d"};
        vargs.insert(vargs.end(), pwargs.begin(), pwargs.end());
        vargs.insert(vargs.end(), {"-o", "verify.out", "verify.ascon"});
        Result r = run_tool(c, 0, vargs, nullptr, 0, -1, 0);
        c.run->faults = faults; // the verification run injects nothing and must not show up in the fault counts
        c.chunk = chunk;
        c.eintr = eintr;
        bool ex;
        Bytes back = vfs_get("verify.out", &ex);
        vfs_remove("verify.ascon");
        vfs_remove("verify.out");
        c.run->probe("verify.decrypt_runs");
        return r.exit_code == 0 && ex && back == plain;
    }

    static bool transient_fired(const Result &r) { return r.fired[FK_EINTR] || r.fired[FK_EAGAIN] || r.fired[FK_SHORT]; }

    static void viol(Ctx &c, const char *oracle, const std::string &site, const std::string &detail)
    {
        c.run->violation("C19", oracle, site, detail);
    }

    static std::string fault_summary(const Result &r)
    {
        return fmt("exit=%d eintr=%ld eagain=%ld short=%ld eio=%ld enospc=%ld openfail=%ld crash=%ld", r.exit_code, r.fired[FK_EINTR],
                   r.fired[FK_EAGAIN], r.fired[FK_SHORT], r.fired[FK_EIO], r.fired[FK_ENOSPC], r.fired[FK_EACCES], r.fired[FK_CRASH]);
    }

    // password delivery: -p or key file written by the harness
    // *pw_plain: an ordinary password, which the tool has no reason to refuse.  Empty and very long passwords are
    // "edge" passwords: the tool may refuse them (today: 1024 characters and more) or accept them - C19 does not say -
    // but if it accepts one, everything else in C19 applies to that run as to any other.
    static bool add_password_args(Ctx &c, std::vector<std::string> &args, const std::string &pw, bool keyfile, int ending, bool *pw_plain)
    {
        *pw_plain = !pw.empty() && pw.size() < 1000;
        if (!keyfile) { args.push_back("-p"); args.push_back(pw); return true; }
        std::string content = pw;
        switch (ending % 4) {
        case 0: content += "\n"; break;
        case 1: content += "\r\n"; break;
        case 2: break; // no newline
        default: content += "\nsecond line ignored\n"; break;
        }
        vfs_put("key.txt", (const unsigned char *)content.data(), content.size());
        c.meta.erase("key.txt");
        args.push_back("-k");
        args.push_back("key.txt");
        return true;
    }

    static void do_file(Ctx &c, const Op &op)
    {
        std::string n = file_name(op.arg(0));
        Bytes b = bytes_of((size_t)(op.u(1) % (3 * BUFSZ + 64)), op.u(2));
        vfs_put(n.c_str(), b.data(), b.size());
        Meta m;
        m.kind = 0;
        m.exact = b;
        c.meta[n] = m;
        if (std::find(c.plain_names.begin(), c.plain_names.end(), n) == c.plain_names.end()) c.plain_names.push_back(n);
        c.run->state(fmt("file/%s", b.size() == 0 ? "0" : b.size() < 16 ? "<16" : b.size() < BUFSZ - 16 ? "<B-16" : b.size() <= BUFSZ ? "~B" : "multi"));
    }

    static void do_enc(Ctx &c, const Op &op)
    {
        std::string in = file_name(op.arg(0));
        bool ex;
        Bytes plain = vfs_get(in, &ex);
        if (!ex) return;
        std::string pw = password(op.arg(1));
        int64_t flags = op.arg(2);
        bool use_stdio = flags & 8;
        bool explicit_e = (flags & 1) || use_stdio;
        bool with_o = flags & 2;
        std::string out = use_stdio ? "-" : with_o ? in + ".enc" + std::to_string(op.arg(0) % 3) : in + ".ascon";
        // auto-detection would pick "decrypt" for names that look encrypted
        bool looks_encrypted = in.size() >= 6 && in.compare(in.size() - 6, 6, ".ascon") == 0;
        if (!explicit_e && looks_encrypted) explicit_e = true;
        std::vector<std::string> args = {"asconcrypt"};
        if (explicit_e) args.push_back("-e");
        bool pw_ok;
        size_t pw_from = args.size();
        add_password_args(c, args, pw, flags & 4, (int)op.arg(3), &pw_ok);
        std::vector<std::string> pwargs(args.begin() + (long)pw_from, args.end());
        if (with_o && !use_stdio) { args.push_back("-o"); args.push_back(out); }
        int stdin_file = -1;
        if (use_stdio) { args.push_back("-"); stdin_file = vfs_find(in.c_str()); }
        else args.push_back(in);
        if (!use_stdio) { vfs_remove(out.c_str()); c.meta.erase(out); }
        Bytes stale;
        if (!use_stdio && op.arg(13) != 0) { // the output name is taken by an older file that is longer than anything this run will write
            Bytes old = bytes_of(plain.size() + 200 + (size_t)(op.u(3) % 97), 0x01dF11e ^ op.u(0));
            if (old.size() <= VFS_MAXDATA) { vfs_put(out.c_str(), old.data(), old.size()); stale = old; c.run->fault("fs.output_name_taken_by_longer_file"); }
        }
        std::set<std::string> names_before = vfs_names();
        Result r = run_tool(c, 0, args, &op, 5, stdin_file, (int)op.arg(4));
        c.run->fold_u64((uint64_t)r.exit_code);
        if (!use_stdio && !with_o) { std::string o2 = discover_output(names_before, out); if (o2 != out) { c.run->probe("enc.output_under_another_name"); out = o2; } }
        bool out_exists = use_stdio ? false : vfs_exists(out);
        Bytes produced = use_stdio ? Bytes(r.out.begin(), r.out.end()) : vfs_get(out, &ex);
        // an older file that this run never touched is not an output of this run
        if (!stale.empty() && out_exists && produced == stale) { out_exists = false; produced.clear(); vfs_remove(out.c_str()); c.run->probe("enc.older_file_untouched"); }
        std::string site = std::string("asconcrypt.encrypt") + (use_stdio ? ".stdio" : "");
        bool rng_failed = r.rng_failed; // the script names a call (every / the 2nd); the verdict follows what was delivered
        c.run->state(fmt("enc/%d/%d/%d/%d/%d", (int)(flags & 15), r.exit_code != 0, (int)r.hard, (int)r.crashed, (int)transient_fired(r)));
        if (r.cap_hit) { viol(c, "liveness", site, "syscall cap exceeded"); return; }
        if (rng_failed) c.run->fault("rng.perm_fail");
        if (r.crashed) {
            c.run->probe("enc.writer_crashed");
            if (out_exists) {
                // a writer killed after its very last byte leaves a complete, valid container behind
                bool complete = container_valid(c, produced, pwargs, plain);
                Meta m;
                m.kind = complete ? 1 : 2;
                m.exact = produced;
                if (complete) { m.plain = plain; m.pw = pw; m.pwidx = op.arg(1); c.meta[in + "#last"] = m; c.meta[in + "#last"].pw = out + "\n" + pw; c.run->probe("enc.writer_crashed_after_last_byte"); }
                c.meta[out] = m;
            }
            return;
        }
        bool must_fail = r.hard || rng_failed;
        if (must_fail) {
            if (r.exit_code == 0) viol(c, r.hard ? "exit_zero_after_io_error" : "exit_zero_after_rng_failure", site, fault_summary(r));
            if (out_exists) viol(c, "partial_output_left", site, fmt("output of %zu bytes left behind; %s", produced.size(), fault_summary(r).c_str()));
            if (out_exists) { Meta m; m.kind = 2; m.exact = produced; c.meta[out] = m; }
            return;
        }
        if (r.exit_code == 0) {
            if ((!use_stdio && !out_exists) || !container_valid(c, produced, pwargs, plain)) {
                viol(c, "exit_zero_with_bad_output", site, fmt("input %zu bytes, output %s %zu bytes is not a valid encryption of the input; %s", plain.size(), out_exists || use_stdio ? "of" : "missing,", produced.size(), fault_summary(r).c_str()));
                if (out_exists) { Meta m; m.kind = 2; m.exact = produced; c.meta[out] = m; }
                return;
            }
            c.run->probe(pw_ok ? "enc.ok" : "enc.ok_edge_password");
            if (!use_stdio) { Meta m; m.kind = 1; m.plain = plain; m.pw = pw; m.pwidx = op.arg(1); m.exact = produced; c.meta[out] = m; c.meta[in + "#last"] = m; c.meta[in + "#last"].pw = out + "\n" + pw; }
        } else {
            if (!pw_ok) c.run->probe("enc.edge_password_refused");
            else if (!transient_fired(r)) viol(c, "fails_without_fault", site, fault_summary(r));
            if (out_exists) viol(c, "partial_output_left", site, fmt("exit %d but output of %zu bytes left behind", r.exit_code, produced.size()));
        }
    }

    static void do_dec(Ctx &c, const Op &op)
    {
        std::string base = file_name(op.arg(0));
        auto last = c.meta.find(base + "#last");
        if (last == c.meta.end()) return;
        std::string encname = last->second.pw.substr(0, last->second.pw.find('\n'));
        bool ex;
        Bytes cur = vfs_get(encname, &ex);
        if (!ex) return;
        auto mi = c.meta.find(encname);
        bool authentic = mi != c.meta.end() && mi->second.kind == 1 && mi->second.exact == cur;
        std::string pw = password(op.arg(1));
        int64_t flags = op.arg(2);
        bool use_stdio = flags & 8;
        bool with_o = (flags & 2) != 0;
        bool is_enc_name = encname.size() >= 6 && encname.compare(encname.size() - 6, 6, ".ascon") == 0;
        bool explicit_d = (flags & 1) || use_stdio || !is_enc_name;
        std::string out;
        if (use_stdio) out = "-";
        else if (with_o) out = encname + ".out";
        else if (is_enc_name) out = encname.substr(0, encname.size() - 6);
        else out = encname + ".decrypted";
        std::vector<std::string> args = {"asconcrypt"};
        if (explicit_d) args.push_back("-d");
        bool pw_ok;
        add_password_args(c, args, pw, flags & 4, (int)op.arg(3), &pw_ok);
        if (with_o && !use_stdio) { args.push_back("-o"); args.push_back(out); }
        int stdin_file = -1;
        if (use_stdio) { args.push_back("-"); stdin_file = vfs_find(encname.c_str()); }
        else args.push_back(encname);
        Bytes saved_out;
        bool had_out = false;
        if (!use_stdio) { saved_out = vfs_get(out, &had_out); vfs_remove(out.c_str()); }
        Bytes stale;
        if (!use_stdio && op.arg(13) != 0) {
            Bytes old = bytes_of(cur.size() + 200 + (size_t)(op.u(3) % 97), 0x01dF11e ^ op.u(0));
            if (old.size() <= VFS_MAXDATA) { vfs_put(out.c_str(), old.data(), old.size()); stale = old; c.run->fault("fs.output_name_taken_by_longer_file"); }
        }
        std::set<std::string> names_before = vfs_names();
        Result r = run_tool(c, 0, args, &op, 5, stdin_file, 0);
        c.run->fold_u64((uint64_t)r.exit_code);
        if (!use_stdio && !with_o) { std::string o2 = discover_output(names_before, out); if (o2 != out) { c.run->probe("dec.output_under_another_name"); out = o2; } }
        bool out_exists = use_stdio ? false : vfs_exists(out);
        Bytes produced = use_stdio ? Bytes(r.out.begin(), r.out.end()) : vfs_get(out, &ex);
        if (!stale.empty() && out_exists && produced == stale) { out_exists = false; produced.clear(); vfs_remove(out.c_str()); c.run->probe("dec.older_file_untouched"); }
        std::string site = std::string("asconcrypt.decrypt") + (use_stdio ? ".stdio" : "");
        bool right_pw = authentic && pw == mi->second.pw;
        c.run->state(fmt("dec/%d/%d/%d/%d/%d/%d", (int)(flags & 15), (int)authentic, (int)right_pw, r.exit_code != 0, (int)r.hard, (int)transient_fired(r)));
        auto restore = [&]() { if (!use_stdio && !out_exists && had_out) vfs_put(out.c_str(), saved_out.data(), saved_out.size()); };
        if (r.cap_hit) { viol(c, "liveness", site, "syscall cap exceeded"); return; }
        if (r.crashed) { if (out_exists) { Meta m; m.kind = 2; m.exact = produced; c.meta[out] = m; } return; }
        bool must_fail = r.hard || !authentic || !right_pw;
        if (must_fail) {
            const char *why = r.hard ? "io_error" : !authentic ? "tampered_or_truncated_input" : "wrong_password";
            if (r.exit_code == 0) viol(c, fmt("exit_zero_after_%s", why).c_str(), site, fmt("input %zu bytes; %s", cur.size(), fault_summary(r).c_str()));
            if (out_exists) viol(c, "output_left_after_failure", site, fmt("%s: output of %zu bytes left behind; %s", why, produced.size(), fault_summary(r).c_str()));
            if (!authentic) c.run->probe("dec.rejected_tampered");
            else if (!right_pw) c.run->probe("dec.rejected_wrong_password");
            if (out_exists) { Meta m; m.kind = 2; m.exact = produced; c.meta[out] = m; }
            restore();
            return;
        }
        if (r.exit_code == 0) {
            if ((!use_stdio && !out_exists) || produced != mi->second.plain)
                viol(c, "roundtrip", site, fmt("decrypted %zu bytes differ from the %zu original bytes (%s); %s", produced.size(), mi->second.plain.size(), out_exists || use_stdio ? "content" : "missing", fault_summary(r).c_str()));
            else c.run->probe("dec.roundtrip_ok");
            if (out_exists) { Meta m; m.kind = 0; m.exact = produced; c.meta[out] = m; }
        } else {
            // an edge password may have been accepted through one delivery path (-p) and be refused through another (-k)
            if (pw_ok && !transient_fired(r)) viol(c, "fails_without_fault", site, fault_summary(r));
            if (out_exists) viol(c, "output_left_after_failure", site, fmt("exit %d but output of %zu bytes left behind", r.exit_code, produced.size()));
            restore();
        }
    }

    static void do_tamper(Ctx &c, const Op &op)
    {
        std::string base = file_name(op.arg(0));
        auto last = c.meta.find(base + "#last");
        if (last == c.meta.end()) return;
        std::string encname = last->second.pw.substr(0, last->second.pw.find('\n'));
        int i = vfs_find(encname.c_str());
        if (i < 0) return;
        vfile &v = g_os->files[i];
        Rng r(op.u(2));
        switch (op.u(1) % 4) {
        case 0: if (v.size) { size_t b = r.below(v.size * 8); v.data[b / 8] ^= 1u << (b % 8); c.run->fault("fs.tamper_bit"); } break;
        case 1: { size_t n = r.chance(1, 2) ? r.below(97) : r.below(v.size + 1); if (n < v.size) { v.size = n; c.run->fault("fs.tamper_truncate"); } break; }
        case 2: { size_t n = 1 + r.below(40); for (size_t k = 0; k < n && v.size < VFS_MAXDATA; ++k) v.data[v.size++] = (uint8_t)r.next(); c.run->fault("fs.tamper_extend"); break; }
        default: if (v.size > 80) { size_t b = (80 + r.below(v.size - 80)) * 8 + r.below(8); v.data[b / 8] ^= 1u << (b % 8); c.run->fault("fs.tamper_bit"); } break;
        }
    }

    // Several INPUT arguments in one invocation.  C19 per file: an output that exists is a complete, valid output;
    // per invocation: any hard fault, and any tampered input, makes the exit status non-zero.
    static void do_multi(Ctx &c, const Op &op)
    {
        int nf = 2 + (int)(op.u(0) % 2);
        std::string pw = password(op.arg(1));
        if (pw.empty() || pw.size() >= 1000) pw = "multi-pw";
        int tamper = (int)(op.u(2) % 4); // 0 none, else 1-based index of the container to spoil before the joint decryption
        Rng r(op.u(3));
        std::vector<std::string> in, enc;
        std::vector<Bytes> plain;
        for (int i = 0; i < nf; ++i) {
            in.push_back("m" + std::to_string(i) + ".bin");
            enc.push_back(in[i] + ".ascon");
            size_t len = r.chance(1, 4) ? 0 : r.chance(1, 2) ? r.below(200) : BUFSZ - 20 + r.below(60);
            plain.push_back(bytes_of(len, r.next()));
            vfs_put(in[i].c_str(), plain[i].data(), plain[i].size());
            vfs_remove(enc[i].c_str());
        }
        auto cleanup = [&]() { for (int i = 0; i < nf; ++i) { vfs_remove(in[i].c_str()); vfs_remove(enc[i].c_str()); c.meta.erase(in[i]); c.meta.erase(enc[i]); } };
        std::vector<std::string> args = {"asconcrypt", "-e", "-p", pw};
        for (auto &f : in) args.push_back(f);
        Result e = run_tool(c, 0, args, &op, 4, -1, 0);
        c.run->fold_u64((uint64_t)e.exit_code);
        const std::string site = "asconcrypt.encrypt.multi";
        c.run->state(fmt("multi/enc/%d/%d/%d/%d", nf, e.exit_code != 0, (int)e.hard, (int)e.crashed));
        if (e.cap_hit) { viol(c, "liveness", site, "syscall cap exceeded"); cleanup(); return; }
        if (e.crashed) { cleanup(); return; }
        int valid = 0;
        for (int i = 0; i < nf; ++i) {
            bool ex;
            Bytes f = vfs_get(enc[i], &ex);
            if (!ex) continue;
            if (container_valid(c, f, pw, plain[i])) ++valid;
            else viol(c, "partial_output_left", site, fmt("input %d of %d: an output of %zu bytes exists that is not an encryption of its %zu-byte input; %s", i + 1, nf, f.size(), plain[i].size(), fault_summary(e).c_str()));
        }
        if (e.hard) {
            if (e.exit_code == 0) viol(c, "exit_zero_after_io_error", site, fault_summary(e));
            cleanup();
            return;
        }
        if (e.exit_code != 0) { if (!transient_fired(e)) viol(c, "fails_without_fault", site, fault_summary(e)); cleanup(); return; }
        if (valid != nf) { viol(c, "exit_zero_with_bad_output", site, fmt("%d of %d outputs present and valid; %s", valid, nf, fault_summary(e).c_str())); cleanup(); return; }
        c.run->probe("multi.enc_ok");
        // joint decryption, fault-free, one container possibly spoiled
        for (int i = 0; i < nf; ++i) vfs_remove(in[i].c_str());
        int t = tamper && tamper <= nf ? tamper - 1 : -1;
        if (t >= 0) {
            int vi = vfs_find(enc[t].c_str());
            vfile &v = g_os->files[vi];
            if (r.chance(1, 2) && v.size) { size_t b = r.below(v.size * 8); v.data[b / 8] ^= 1u << (b % 8); c.run->fault("fs.tamper_bit"); }
            else { v.size = r.below(v.size); c.run->fault("fs.tamper_truncate"); }
        }
        args = {"asconcrypt", "-d", "-p", pw};
        for (auto &f : enc) args.push_back(f);
        int chunk = c.chunk, eintr = c.eintr;
        Result d = run_tool(c, 0, args, nullptr, 0, -1, 0);
        (void)chunk; (void)eintr;
        c.run->fold_u64((uint64_t)d.exit_code);
        const std::string dsite = "asconcrypt.decrypt.multi";
        c.run->state(fmt("multi/dec/%d/%d/%d", nf, t >= 0, d.exit_code != 0));
        if (d.cap_hit) { viol(c, "liveness", dsite, "syscall cap exceeded"); cleanup(); return; }
        if ((d.exit_code != 0) != (t >= 0)) {
            if (t >= 0) viol(c, "exit_zero_after_tampered_or_truncated_input", dsite, fmt("input %d of %d was modified, exit status 0", t + 1, nf));
            else if (!transient_fired(d)) viol(c, "fails_without_fault", dsite, fault_summary(d));
        }
        for (int i = 0; i < nf; ++i) {
            bool ex;
            Bytes f = vfs_get(in[i], &ex);
            if (i == t) { if (ex) viol(c, "output_left_after_failure", dsite, fmt("input %d of %d was modified and an output of %zu bytes was left behind", i + 1, nf, f.size())); }
            else if (d.exit_code == 0 || t >= 0) {
                // an intact input that comes after the spoiled one may be left alone by a tool that stops at the first failure
                bool may_be_absent = t >= 0 && i > t;
                if (ex ? f != plain[i] : !may_be_absent) viol(c, "roundtrip", dsite, fmt("input %d of %d: %s", i + 1, nf, ex ? "decrypted content differs from the original" : "no output although this input is intact"));
                else if (ex) c.run->probe("multi.dec_roundtrip_ok");
            }
        }
        cleanup();
    }

    static void do_gen(Ctx &c, const Op &op)
    {
        std::string kf = "gen" + std::to_string(op.arg(0) % 3) + ".key";
        vfs_remove(kf.c_str());
        Result r = run_tool(c, 0, {"asconcrypt", "-g", kf}, &op, 2, -1, op.arg(1) != 0 ? 1 : 0);
        bool rng_failed = r.rng_failed;
        c.run->fold_u64((uint64_t)r.exit_code);
        bool ex;
        Bytes k = vfs_get(kf, &ex);
        const std::string site = "asconcrypt.generate";
        c.run->state(fmt("gen/%d/%d/%d", r.exit_code != 0, (int)r.hard, (int)rng_failed));
        if (r.cap_hit) { viol(c, "liveness", site, "syscall cap exceeded"); return; }
        if (r.crashed) return;
        if (rng_failed) c.run->fault("rng.perm_fail");
        if (r.hard || rng_failed) {
            if (r.exit_code == 0) viol(c, r.hard ? "exit_zero_after_io_error" : "exit_zero_after_rng_failure", site, fault_summary(r));
            if (ex) viol(c, "partial_output_left", site, fmt("key file of %zu bytes left behind; %s", k.size(), fault_summary(r).c_str()));
            return;
        }
        if (r.exit_code == 0) {
            // what a good key file looks like is the tool's business: it is good if the tool can use it (fault-free
            // encryption of a small file with -k, whose result the tool decrypts back with the same -k)
            bool good = ex && !k.empty();
            if (good) {
                static const unsigned char sample[] = "seventeen bytes!!";
                Bytes plain(sample, sample + 17);
                vfs_put("genprobe.in", plain.data(), plain.size());
                vfs_remove("genprobe.enc");
                int chunk = c.chunk, eintr = c.eintr;
                c.chunk = 0;
                c.eintr = 0;
                std::map<std::string, uint64_t> faults = c.run->faults;
                Result e = run_tool(c, 0, {"asconcrypt", "-e", "-k", kf, "-o", "genprobe.enc", "genprobe.in"}, nullptr, 0, -1, 0);
                c.run->faults = faults;
                c.chunk = chunk;
                c.eintr = eintr;
                bool ex2;
                Bytes enc = vfs_get("genprobe.enc", &ex2);
                good = e.exit_code == 0 && ex2 && container_valid(c, enc, std::vector<std::string>{"-k", kf}, plain);
                vfs_remove("genprobe.in");
                vfs_remove("genprobe.enc");
            }
            if (!good) viol(c, "exit_zero_with_bad_output", site, fmt("key file %s, %zu bytes, cannot be used by the tool itself; %s", ex ? "present" : "missing", k.size(), fault_summary(r).c_str()));
            else c.run->probe("gen.ok");
        } else {
            if (!transient_fired(r)) viol(c, "fails_without_fault", site, fault_summary(r));
            if (ex) viol(c, "partial_output_left", site, fmt("exit %d but key file of %zu bytes left behind", r.exit_code, k.size()));
        }
    }


    // Systematic sweeps (thorough tier): every truncation length, one bit in every byte,
    // failure of the k-th read/write for every k.
    static void do_sweep(Ctx &c, const Op &op)
    {
        int64_t nm = op.arg(0);
        int kind = (int)(op.arg(1) % 6);
        std::string base = file_name(nm);
        auto last = c.meta.find(base + "#last");
        if (last == c.meta.end()) return;
        std::string encname = last->second.pw.substr(0, last->second.pw.find('\n'));
        int fi = vfs_find(encname.c_str());
        auto mi = c.meta.find(encname);
        if (fi < 0 || mi == c.meta.end() || mi->second.kind != 1) return;
        const Meta saved = mi->second;         // do_enc/do_dec below rewrite the map: keep copies, not iterators
        const Meta saved_last = last->second;
        vfile &v = g_os->files[fi];
        Bytes orig(v.data, v.data + v.size);
        if (orig != saved.exact || orig.size() > 400) return;
        int64_t pw = saved.pwidx;
        Rng r(op.u(2));
        auto restore = [&]() { vfs_put(encname.c_str(), orig.data(), orig.size()); c.meta[encname] = saved; c.meta[base + "#last"] = saved_last; };
        int cur = c.run->cur_op;
        if (kind == 0) {
            for (size_t L = 0; L < orig.size(); ++L) {
                restore();
                vfs_put(encname.c_str(), orig.data(), L);
                Op d("dec", {nm, pw, 3, 0, 0, 0, 0, 0, 0, 0, 0, 0, 0});
                do_dec(c, d);
                c.run->fault("fs.tamper_truncate");
            }
            c.run->probe("sweep.truncate_every_length");
        } else if (kind == 1) {
            for (size_t i = 0; i < orig.size(); ++i) {
                Bytes t = orig;
                t[i] ^= (uint8_t)(1u << r.below(8));
                restore();
                vfs_put(encname.c_str(), t.data(), t.size());
                Op d("dec", {nm, pw, 3, 0, 0, 0, 0, 0, 0, 0, 0, 0, 0});
                do_dec(c, d);
                c.run->fault("fs.tamper_bit");
            }
            c.run->probe("sweep.flip_every_byte");
        } else {
            static const int sysk[6] = {0, 0, SYS_WRITE, SYS_READ, SYS_WRITE, SYS_READ};
            static const int fkk[6] = {0, 0, FK_ENOSPC, FK_EIO, FK_EIO, FK_EIO};
            bool enc = kind == 2 || kind == 5;
            for (int k = 1; k <= 24; ++k) {
                uint64_t before = c.run->faults[fkk[kind] == FK_ENOSPC ? "fs.enospc" : "fs.eio"];
                Op o(enc ? "enc" : "dec", {nm, pw, 3, 0, 0, sysk[kind], k, fkk[kind], 1, 0, 0, 0, 0});
                if (enc) do_enc(c, o); else do_dec(c, o);
                restore();
                if (c.run->faults[fkk[kind] == FK_ENOSPC ? "fs.enospc" : "fs.eio"] == before) break; // fewer than k such calls
            }
            c.run->probe(fmt("sweep.fail_kth_%s_%s", sysk[kind] == SYS_WRITE ? "write" : "read", enc ? "enc" : "dec"));
        }
        restore();
        c.run->cur_op = cur;
    }

    // Command lines the tools must refuse loudly: exit != 0, nothing written, no input touched.
    static void do_usage(Ctx &c, const Op &op)
    {
        int kind = (int)(op.u(0) % 8);
        std::string in = file_name(op.arg(1));
        bool ex;
        Bytes before = vfs_get(in, &ex);
        if (!ex) return;
        vfs_put("key.txt", (const unsigned char *)"pw\n", 3);
        vfs_remove("u.out");
        vfs_remove((in + ".ascon").c_str());
        std::vector<std::string> args;
        int tool = 0;
        switch (kind) {
        case 0: args = {"asconcrypt", "-e", "-p", "pw", "-k", "key.txt", "-o", "u.out", in}; break;          // both -p and -k
        case 1: args = {"asconcrypt", "-e", "-p", "pw", "-o", "u.out", in, in}; break;                        // -o with two inputs
        case 2: args = {"asconcrypt", "-e", "-p", "pw"}; break;                                                // no input
        case 3: args = {"asconcrypt", "-e", "-o", "u.out", in}; break;                                         // no password, no terminal
        case 4: args = {"asconcrypt", "-Z", "-p", "pw", in}; break;                                            // unknown option
        case 5: args = {"asconcrypt", "-g", "k.key", in}; break;                                               // -g with an input file
        case 6: args = {"asconcrypt", "-e", "-k", "no-such-key-file", "-o", "u.out", in}; break;               // missing key file
        default: tool = 1; args = {"asconsum", "-Z", in}; break;                                               // asconsum: unknown option
        }
        Result r = run_tool(c, tool, args, nullptr, 0, -1, 0);
        c.run->fold_u64((uint64_t)r.exit_code);
        c.run->state(fmt("usage/%d/%d", kind, r.exit_code != 0));
        const std::string site = tool ? "asconsum.usage" : "asconcrypt.usage";
        // C19 does not say which command lines must be refused, only that a failing run leaves no output behind:
        // a tool that accepts one of these and does its job is not judged; a refusal that leaves a file is
        if (r.exit_code != 0 && (vfs_exists("u.out") || vfs_exists(in + ".ascon") || (kind == 5 && vfs_exists("k.key"))))
            viol(c, "partial_output_left", site, fmt("kind=%d: exit %d but an output file exists", kind, r.exit_code));
        (void)before;
        vfs_remove("k.key");
        c.run->probe(r.exit_code ? "usage.refused" : "usage.accepted");
    }

    // Hostile but valid argument vectors and files: only memory safety is judged (C12); results are not.
    static void do_hostile(Ctx &c, const Op &op)
    {
        int kind = (int)(op.u(0) % 10);
        size_t k = (size_t)(op.u(1) % 40);
        Rng r(op.u(2));
        Bytes body = bytes_of(200 + k, op.u(2));
        std::string pw = "pw";
        auto put = [&](const std::string &n, const Bytes &b) { vfs_put(n.c_str(), b.data(), b.size()); c.meta.erase(n); };
        std::vector<std::string> args;
        int tool = 0;
        switch (kind) {
        case 0: { // name shorter than the ".ascon" suffix, default output naming on decrypt
            std::string n = std::string("abcde").substr(0, 1 + k % 5);
            put(n, body);
            args = {"asconcrypt", "-d", "-p", pw, n};
            break; }
        case 1: { // auto-detect with a short name (counts as "encrypted")
            std::string n = std::string("vwxyz").substr(0, 1 + k % 5);
            put(n, body);
            args = {"asconcrypt", "-p", pw, n};
            break; }
        case 2: { // name of BUFSIZ + 6 + k characters ending in .ascon: strip_suffix at the buffer limit
            std::string n = std::string(BUFSZ + k - (k % 3 == 0 ? 7 : 0), 'L') + ".ascon";
            args = {"asconcrypt", "-d", "-p", pw, n};
            break; }
        case 3: { // very long plain name, default ".ascon"/".decrypted" suffix
            std::string n = std::string(BUFSZ - 8 + k, 'M');
            args = {"asconcrypt", k & 1 ? "-e" : "-d", "-p", pw, n};
            break; }
        case 4: args = {"asconcrypt", "-e", "-p", pw, ""}; break;
        case 5: { // passwords at and beyond the limit, on the command line and in key files of any length
            std::string big(1020 + k % 12, 'p');
            put("h.bin", body);
            if (k & 1) args = {"asconcrypt", "-e", "-p", big, "-o", "h.out", "h.bin"};
            else {
                Bytes kf((1000 + 13 * k) * (1 + k % 9), 'k');
                if (k % 4 == 0 && !kf.empty()) kf[kf.size() / 2] = 0;
                put("big.key", kf);
                args = {"asconcrypt", "-e", "-k", "big.key", "-o", "h.out", "h.bin"};
            }
            break; }
        case 6: { // asconsum: long names, many files
            tool = 1;
            args = {"asconsum"};
            for (size_t i = 0; i < 1 + k % 4; ++i) { std::string n = std::string(1000 * (i + 1) + k, 'N'); if (i == 0) put(n, body); args.push_back(n); }
            break; }
        case 7: { // asconsum -c with lines at and beyond the line buffer, no trailing newline, junk
            tool = 1;
            std::string list;
            std::string hx = digest_hex(0, body);
            put("t.bin", body);
            switch (k % 6) {
            case 0: list = hx + "  " + std::string(1024 - 66 - 1 + k % 3, 'n') + "\n"; break;
            case 1: list = hx + "  " + std::string(3000, 'n'); break;
            case 2: list = std::string(1023 + k % 3, 'a'); break;
            case 3: list = hx.substr(0, 63) + "\n" + hx + "\n" + hx + " \n" + hx + "  t.bin"; break;
            case 4: list = std::string(k, '\n') + hx + "  t.bin\r\n\r\n"; break;
            default: { Bytes junk = bytes_of(600 + k, op.u(2) ^ 9); list.assign(junk.begin(), junk.end()); break; }
            }
            put("h.sums", Bytes(list.begin(), list.end()));
            args = {"asconsum", "-c", "h.sums"};
            break; }
        case 8: { // encrypted container cut at every interesting boundary, read through stdin
            Bytes ct = bytes_of(96 + k, op.u(2));
            memcpy(ct.data(), "ASCONcrypt\0\1", 12);
            ct.resize(r.below(ct.size() + 1));
            put("cut.ascon", ct);
            args = {"asconcrypt", "-d", "-p", pw, "-o", "cut.out", "cut.ascon"};
            break; }
        default: args = {"asconcrypt", "-g", std::string(BUFSZ + k, 'G')}; break;
        }
        c.run->fault(fmt("hostile.%d", kind));
        Result res = run_tool(c, tool, args, nullptr, 0, -1, 0);
        c.run->fold_u64((uint64_t)res.exit_code);
        c.run->state(fmt("hostile/%d/%d", kind, res.exit_code != 0));
    }

    static std::string digest_hex(int alg, const Bytes &b)
    {
        uint8_t h[32];
        const uint8_t *p = b.empty() ? (const uint8_t *)"" : b.data();
        switch (alg % 4) {
        case 0: ascon_hash(h, p, b.size()); break;
        case 1: ascon_hasha(h, p, b.size()); break;
        case 2: ascon_xof(h, p, b.size()); break;
        default: ascon_xofa(h, p, b.size()); break;
        }
        return hex(h, 32, 32);
    }
    static const char *alg_flag(int alg) { static const char *f[] = {"-h", "-a", "-x", "-y"}; return f[alg % 4]; }

    static std::vector<std::string> pick_files(Ctx &c, int64_t mask)
    {
        std::vector<std::string> v;
        for (size_t i = 0; i < c.plain_names.size() && i < 3; ++i)
            if (mask & (1 << i)) v.push_back(c.plain_names[i]);
        if (v.empty() && !c.plain_names.empty()) v.push_back(c.plain_names[0]);
        return v;
    }

    static void do_sum(Ctx &c, const Op &op)
    {
        int alg = (int)(op.arg(0) % 4);
        std::vector<std::string> files = pick_files(c, op.arg(1));
        if (files.empty()) return;
        bool missing = op.arg(2) != 0;
        bool from_stdin = (op.arg(1) & 16) != 0 && !missing;
        if (missing) files.push_back("no-such-file");
        std::vector<std::string> args = {"asconsum"};
        if (alg != 0 || (op.arg(1) & 8)) args.push_back(alg_flag(alg));
        int stdin_file = -1;
        if (from_stdin) {
            // no file arguments (or "-"): the tool hashes standard input and names it "-"
            stdin_file = vfs_find(files[0].c_str());
            if (op.arg(1) & 8) args.push_back("-");
        } else for (auto &f : files) args.push_back(f);
        Result r = run_tool(c, 1, args, &op, 3, stdin_file, 0);
        c.run->fold_u64((uint64_t)r.exit_code);
        c.run->fold_str(r.out);
        const std::string site = "asconsum.hash";
        c.run->state(fmt("sum/%d/%d/%d/%d", alg, (int)missing, r.exit_code != 0, (int)(r.fired[FK_EIO] != 0)));
        if (r.cap_hit) { viol(c, "liveness", site, "syscall cap exceeded"); return; }
        // What must be printed is the digest of each file (C19: "prints exactly the ... digest of each file"); how a line
        // is laid out around it is not stated.  A printed line is attributed to the digests it contains (runs of 64 hex
        // digits, either case): every readable file must have a line carrying its digest and its name, in argument
        // order, and no line may carry a 64-digit value that is not the digest of a named file.
        std::vector<std::pair<std::string, std::string>> want; // (digest, name)
        if (from_stdin) {
            bool ex;
            Bytes b = vfs_get(files[0], &ex);
            want.push_back({digest_hex(alg, b), "-"});
            c.run->probe("sum.stdin");
        } else for (auto &f : files) {
            bool ex;
            Bytes b = vfs_get(f, &ex);
            if (ex) want.push_back({digest_hex(alg, b), f});
        }
        auto hex_runs = [](const std::string &line) {
            std::vector<std::string> v;
            std::string cur;
            for (size_t i = 0; i <= line.size(); ++i) {
                char ch = i < line.size() ? line[i] : ' ';
                if (isxdigit((unsigned char)ch)) cur += (char)tolower((unsigned char)ch);
                else { if (cur.size() == 64) v.push_back(cur); cur.clear(); }
            }
            return v;
        };
        std::vector<std::string> lines;
        { std::istringstream got(r.out); std::string line; while (std::getline(got, line)) lines.push_back(line); }
        bool io_err = r.fired[FK_EIO] != 0 || r.hard;
        bool stray = false;
        for (auto &line : lines)
            for (auto &h : hex_runs(line)) {
                bool known = false;
                for (auto &w : want) if (w.first == h && line.find(w.second) != std::string::npos) known = true;
                if (!known) stray = true;
            }
        if (stray) viol(c, "digest_output", site, fmt("alg=%d a printed line carries a 64-digit value that is not the digest of the file it names%s", alg, io_err ? " (after a read error)" : ""));
        if (!io_err) {
            size_t li = 0;
            bool all = true;
            for (auto &w : want) {
                bool found = false;
                for (; li < lines.size() && !found; ++li) {
                    std::vector<std::string> hs = hex_runs(lines[li]);
                    found = std::find(hs.begin(), hs.end(), w.first) != hs.end() && lines[li].find(w.second) != std::string::npos;
                }
                if (!found) { all = false; break; }
            }
            if (!all) viol(c, "digest_output", site, fmt("alg=%d stdout lacks the digest line of a readable file (%zu lines for %zu files)", alg, lines.size(), want.size()));
            // a file that cannot be opened is an I/O error the tool must report; an exit status for the all-fine case is not stated by C19
            if (missing && r.exit_code == 0) viol(c, "exit_status", site, "exit=0 although a named file could not be opened");
            if (all && !stray) c.run->probe("sum.ok");
        } else {
            if (r.exit_code == 0) viol(c, "exit_zero_after_io_error", site, fault_summary(r));
        }
    }

    static void do_chk(Ctx &c, const Op &op)
    {
        int alg = (int)(op.arg(0) % 4);
        std::vector<std::string> files = pick_files(c, op.arg(1));
        if (files.empty()) return;
        int spoil = (int)(op.arg(2) % 12);
        Rng r(op.u(3));
        // build the list from the current content
        std::string list;
        std::map<std::string, bool> expect_ok;
        bool any_bad = false;
        bool crlf = spoil == 5;
        for (auto &f : files) {
            if (f.find(' ') == 0 || f.find(": ") != std::string::npos || f.size() > 900) continue;
            bool ex;
            Bytes b = vfs_get(f, &ex);
            std::string hx = digest_hex(alg, b);
            if (spoil == 6 && r.chance(1, 2)) for (auto &ch : hx) ch = (char)toupper(ch);
            list += hx + "  " + f + (crlf ? "\r\n" : "\n");
            expect_ok[f] = true;
        }
        if (expect_ok.empty()) return;
        if (spoil == 1) { list += "zz not a checksum line\n"; any_bad = true; c.run->fault("sum.malformed_line"); }
        if (spoil == 2) { list += std::string(64, 'a') + "  no-such-file\n"; any_bad = true; c.run->fault("sum.missing_file"); }
        // a missing file whose listed digest is the digest of the entry just before it (a copy that has since been removed)
        if (spoil == 8 || spoil == 11) {
            std::string last = list.substr(list.rfind('\n', list.size() - 2) == std::string::npos ? 0 : list.rfind('\n', list.size() - 2) + 1, 64);
            if (spoil == 11) for (auto &ch : last) ch = (char)toupper(ch);
            list += last + "  no-such-file\n";
            any_bad = true;
            c.run->fault("sum.missing_file_same_digest_as_previous");
        }
        // a missing file on the first line, listed with an all-zero digest
        if (spoil == 9) { list = std::string(64, '0') + "  no-such-file\n" + list; any_bad = true; c.run->fault("sum.missing_file_zero_digest_first"); }
        // the same file listed twice
        if (spoil == 10) { list += list.substr(0, list.find('\n') + 1); c.run->probe("chk.file_listed_twice"); }
        if (spoil == 7) { list += "\n\n"; }
        vfs_put("sums.txt", (const unsigned char *)list.data(), list.size());
        // modify one listed file after the list was written
        if (spoil == 3 || spoil == 4) {
            const std::string &victim = expect_ok.begin()->first;
            int i = vfs_find(victim.c_str());
            if (i >= 0) {
                vfile &v = g_os->files[i];
                if (spoil == 3 && v.size) { size_t b = r.below(v.size * 8); v.data[b / 8] ^= 1u << (b % 8); }
                else if (v.size < VFS_MAXDATA) v.data[v.size++] = 0x41;
                expect_ok[victim] = false;
                any_bad = true;
                c.run->fault("sum.file_modified");
                c.meta[victim].exact.assign(v.data, v.data + v.size);
            }
        }
        std::vector<std::string> args = {"asconsum", "-c"};
        if (alg != 0) args.push_back(alg_flag(alg));
        args.push_back("sums.txt");
        // transient read faults only (short stdio transfers: op args 4..11): the verdicts must be those of a quiet run.
        // What check mode owes the caller after a hard read error on a listed file is not stated by C19 and is not generated.
        Result res = run_tool(c, 1, args, &op, 4, -1, 0);
        c.run->fold_u64((uint64_t)res.exit_code);
        c.run->fold_str(res.out);
        const std::string site = "asconsum.check";
        c.run->state(fmt("chk/%d/%d/%d", alg, spoil, res.exit_code != 0));
        if (res.cap_hit) { viol(c, "liveness", site, "syscall cap exceeded"); return; }
        std::map<std::string, std::string> verdicts;
        std::istringstream got(res.out);
        std::string line;
        while (std::getline(got, line)) {
            size_t p = line.rfind(": ");
            if (p != std::string::npos) verdicts[line.substr(0, p)] = line.substr(p + 2);
        }
        for (auto &kv : expect_ok) {
            auto it = verdicts.find(kv.first);
            bool said_ok = it != verdicts.end() && it->second == "OK";
            if (kv.second && !said_ok) viol(c, "check_mode_ok_exactly_for_unmodified", site, fmt("unmodified file not reported OK (spoil=%d, reported '%s')", spoil, it == verdicts.end() ? "<nothing>" : it->second.c_str()));
            if (!kv.second && said_ok) viol(c, "check_mode_ok_exactly_for_unmodified", site, fmt("modified file reported OK (spoil=%d)", spoil));
        }
        if (verdicts.count("no-such-file") && verdicts["no-such-file"] == "OK") viol(c, "check_mode_ok_exactly_for_unmodified", site, "missing file reported OK");
        // a line that is not a checksum line names no file: whether it alone makes the exit status non-zero is not stated
        if (spoil == 1) c.run->probe("chk.malformed_line_exit_unjudged");
        else if ((res.exit_code != 0) != any_bad) viol(c, "exit_status", site, fmt("exit=%d but any_bad=%d (spoil=%d)", res.exit_code, (int)any_bad, spoil));
        else c.run->probe(any_bad ? "chk.detected" : "chk.all_ok");
    }

    void exec(const Plan &plan, Run &run) override
    {
        simos_create();
        simos_reset_fs();
        g_os->disk_cap = 0;
        Ctx c;
        c.run = &run;
        c.chunk = (int)plan.knob("chunk", 0);
        c.eintr = (int)plan.knob("eintr", 0);
        if (c.eintr == 1) c.eintr = 2;
        c.rounds = (unsigned long)plan.knob("rounds", 3);
        int idx = 0;
        for (const Op &op : plan.ops) {
            run.cur_op = idx++;
            if (op.name.compare(0, 5, "knob.") == 0) continue;
            run.ops_done++;
            run.task(op.name == "sum" || op.name == "chk" ? 1 : 0);
            if (op.name == "file") do_file(c, op);
            else if (op.name == "enc") do_enc(c, op);
            else if (op.name == "dec") do_dec(c, op);
            else if (op.name == "tamper") do_tamper(c, op);
            else if (op.name == "gen") do_gen(c, op);
            else if (op.name == "sweep") do_sweep(c, op);
            else if (op.name == "hostile") do_hostile(c, op);
            else if (op.name == "usage") do_usage(c, op);
            else if (op.name == "sum") do_sum(c, op);
            else if (op.name == "chk") do_chk(c, op);
            else if (op.name == "multi") do_multi(c, op);
        }
        ::remove(child_err_path().c_str());
    }
};

int main(int argc, char **argv)
{
    CliWorld w;
    return worker_main(argc, argv, w);
}
