// World `stream`: interleaved histories on incremental objects (C07; feeds C09, C12, C13).
// Several live objects (hash, xof, prf, hmac, kmac, kdf, hkdf, incremental AEAD)
// are driven by a seeded scheduler through chunked absorb/squeeze, copy, re-init,
// free and re-use of dirty memory.  Oracle: the library's own single-call form.
#define ASIM_MAIN 1
#include "core/asim.h"
#include <ascon/aead.h>
#include <ascon/hash.h>
#include <ascon/xof.h>
#include <ascon/prf.h>
#include <ascon/hmac.h>
#include <ascon/kmac.h>
#include <ascon/kdf.h>
#include <ascon/hkdf.h>
#include <ascon/pbkdf2.h>
#include <sys/mman.h>

using namespace asim;

enum Kind { HASH, HASHA, XOF, XOFA, PRF, HMAC, HMACA, KMAC, KMACA, KDF, KDFA, HKDF, HKDFA,
            AE128, AE128A, AE80, NKINDS };
static const char *kind_name[NKINDS] = {"hash", "hasha", "xof", "xofa", "prf", "hmac", "hmaca", "kmac",
                                        "kmaca", "kdf", "kdfa", "hkdf", "hkdfa", "ae128", "ae128a", "ae80pq"};
static unsigned kind_rate(int k)
{
    switch (k) {
    case PRF: return 32;
    case AE128A: return 16;
    case HKDF: case HKDFA: return 32;
    default: return 8;
    }
}
static bool is_aead(int k) { return k >= AE128; }
static bool has_absorb(int k) { return k != KDF && k != KDFA && k != HKDF && k != HKDFA; }
static bool copyable(int k) { return k == HASH || k == HASHA || k == XOF || k == XOFA; }
static bool single_final(int k) { return k == HASH || k == HASHA || k == HMAC || k == HMACA || is_aead(k); }

union AnyState {
    ascon_hash_state_t hash;
    ascon_hasha_state_t hasha;
    ascon_xof_state_t xof;
    ascon_xofa_state_t xofa;
    ascon_prf_state_t prf;
    ascon_hmac_state_t hmac;
    ascon_hmaca_state_t hmaca;
    ascon_kmac_state_t kmac;
    ascon_kmaca_state_t kmaca;
    ascon_kdf_state_t kdf;
    ascon_kdfa_state_t kdfa;
    ascon_hkdf_state_t hkdf;
    ascon_hkdfa_state_t hkdfa;
    ascon128_state_t a128;
    ascon128a_state_t a128a;
    ascon80pq_state_t a80;
};
static size_t kind_size(int k)
{
    switch (k) {
    case HASH: return sizeof(ascon_hash_state_t);
    case HASHA: return sizeof(ascon_hasha_state_t);
    case XOF: return sizeof(ascon_xof_state_t);
    case XOFA: return sizeof(ascon_xofa_state_t);
    case PRF: return sizeof(ascon_prf_state_t);
    case HMAC: return sizeof(ascon_hmac_state_t);
    case HMACA: return sizeof(ascon_hmaca_state_t);
    case KMAC: return sizeof(ascon_kmac_state_t);
    case KMACA: return sizeof(ascon_kmaca_state_t);
    case KDF: return sizeof(ascon_kdf_state_t);
    case KDFA: return sizeof(ascon_kdfa_state_t);
    case HKDF: return sizeof(ascon_hkdf_state_t);
    case HKDFA: return sizeof(ascon_hkdfa_state_t);
    case AE128: return sizeof(ascon128_state_t);
    case AE128A: return sizeof(ascon128a_state_t);
    default: return sizeof(ascon80pq_state_t);
    }
}

struct Params {
    int kind = 0, variant = 0;
    size_t L = 0, n1 = 0, n2 = 0, n3 = 0;
    uint64_t seed = 0;
};

// Derived byte strings of an object (secret ones are salted for twin runs).
struct Material {
    Bytes key, custom, info, ad, nonce, msg;
    std::string name;
};
static Material material(const Params &p, uint64_t salt)
{
    Material m;
    uint64_t s = p.seed;
    switch (p.kind) {
    case XOF: case XOFA:
        if (p.variant == 2) {
            m.name.resize(p.n1);
            Bytes nb = bytes_of(p.n1, s ^ 11);
            for (size_t i = 0; i < p.n1; ++i) m.name[i] = (char)(33 + nb[i] % 94);
            m.custom = bytes_of(p.n2, s ^ 12);
        }
        break;
    case PRF: m.key = bytes_of(16, s ^ 13 ^ salt); break;
    case HMAC: case HMACA: m.key = bytes_of(p.n1, s ^ 14 ^ salt); break;
    case KMAC: case KMACA: case KDF: case KDFA:
        m.key = bytes_of(p.n1, s ^ 15 ^ salt);
        m.custom = bytes_of(p.n2, s ^ 16);
        break;
    case HKDF: case HKDFA:
        m.key = bytes_of(p.n1, s ^ 17 ^ salt);
        m.custom = bytes_of(p.n2, s ^ 18); // salt
        m.info = bytes_of(p.n3, s ^ 19);
        break;
    case AE128: case AE128A: case AE80:
        m.key = bytes_of(p.kind == AE80 ? 20 : 16, s ^ 20 ^ salt);
        m.nonce = bytes_of(16, s ^ 21 ^ salt);
        m.ad = bytes_of(p.n1, s ^ 22 ^ salt);
        m.msg = bytes_of(p.n3, s ^ 23 ^ salt);
        break;
    }
    return m;
}
static const uint8_t *ptr(const Bytes &b) { return b.empty() ? nullptr : b.data(); }
static const uint8_t *ptrnz(const Bytes &b)
{
    static const uint8_t z = 0;
    return b.empty() ? &z : b.data();
}

// --- library calls, dispatched by kind -------------------------------------
static void lib_init(AnyState *st, const Params &p, const Material &m, bool re, int amode = 0)
{
    // amode (incremental AEAD only): 1 = the nonce argument is the object's own application-accessible nonce field,
    // 2 = NULL nonce (documented: all-zero nonce), 3 = NULL key (documented: all-zero key)
    const uint8_t *kp = amode == 3 ? nullptr : m.key.data();
    switch (p.kind) {
    case HASH: re ? ascon_hash_reinit(&st->hash) : ascon_hash_init(&st->hash); break;
    case HASHA: re ? ascon_hasha_reinit(&st->hasha) : ascon_hasha_init(&st->hasha); break;
    case XOF:
        if (p.variant == 0) re ? ascon_xof_reinit(&st->xof) : ascon_xof_init(&st->xof);
        else if (p.variant == 1) re ? ascon_xof_reinit_fixed(&st->xof, p.L) : ascon_xof_init_fixed(&st->xof, p.L);
        else re ? ascon_xof_reinit_custom(&st->xof, m.name.c_str(), ptr(m.custom), m.custom.size(), p.L)
                : ascon_xof_init_custom(&st->xof, m.name.c_str(), ptr(m.custom), m.custom.size(), p.L);
        break;
    case XOFA:
        if (p.variant == 0) re ? ascon_xofa_reinit(&st->xofa) : ascon_xofa_init(&st->xofa);
        else if (p.variant == 1) re ? ascon_xofa_reinit_fixed(&st->xofa, p.L) : ascon_xofa_init_fixed(&st->xofa, p.L);
        else re ? ascon_xofa_reinit_custom(&st->xofa, m.name.c_str(), ptr(m.custom), m.custom.size(), p.L)
                : ascon_xofa_init_custom(&st->xofa, m.name.c_str(), ptr(m.custom), m.custom.size(), p.L);
        break;
    case PRF:
        if (p.variant == 0) re ? ascon_prf_reinit(&st->prf, m.key.data()) : ascon_prf_init(&st->prf, m.key.data());
        else re ? ascon_prf_fixed_reinit(&st->prf, m.key.data(), p.L) : ascon_prf_fixed_init(&st->prf, m.key.data(), p.L);
        break;
    case HMAC: re ? ascon_hmac_reinit(&st->hmac, ptr(m.key), m.key.size()) : ascon_hmac_init(&st->hmac, ptr(m.key), m.key.size()); break;
    case HMACA: re ? ascon_hmaca_reinit(&st->hmaca, ptr(m.key), m.key.size()) : ascon_hmaca_init(&st->hmaca, ptr(m.key), m.key.size()); break;
    case KMAC:
        re ? ascon_kmac_reinit(&st->kmac, ptr(m.key), m.key.size(), ptr(m.custom), m.custom.size(), p.L)
           : ascon_kmac_init(&st->kmac, ptr(m.key), m.key.size(), ptr(m.custom), m.custom.size(), p.L);
        break;
    case KMACA:
        re ? ascon_kmaca_reinit(&st->kmaca, ptr(m.key), m.key.size(), ptr(m.custom), m.custom.size(), p.L)
           : ascon_kmaca_init(&st->kmaca, ptr(m.key), m.key.size(), ptr(m.custom), m.custom.size(), p.L);
        break;
    case KDF:
        re ? ascon_kdf_reinit(&st->kdf, ptr(m.key), m.key.size(), ptr(m.custom), m.custom.size(), p.L)
           : ascon_kdf_init(&st->kdf, ptr(m.key), m.key.size(), ptr(m.custom), m.custom.size(), p.L);
        break;
    case KDFA:
        re ? ascon_kdfa_reinit(&st->kdfa, ptr(m.key), m.key.size(), ptr(m.custom), m.custom.size(), p.L)
           : ascon_kdfa_init(&st->kdfa, ptr(m.key), m.key.size(), ptr(m.custom), m.custom.size(), p.L);
        break;
    case HKDF: ascon_hkdf_extract(&st->hkdf, ptr(m.key), m.key.size(), ptr(m.custom), m.custom.size()); break;
    case HKDFA: ascon_hkdfa_extract(&st->hkdfa, ptr(m.key), m.key.size(), ptr(m.custom), m.custom.size()); break;
    case AE128:
        {
            const uint8_t *np = amode == 1 ? st->a128.nonce : amode == 2 ? nullptr : m.nonce.data();
            re ? ascon128_aead_reinit(&st->a128, np, kp) : ascon128_aead_init(&st->a128, np, kp);
        }
        ascon128_aead_start(&st->a128, ptr(m.ad), m.ad.size());
        break;
    case AE128A:
        {
            const uint8_t *np = amode == 1 ? st->a128a.nonce : amode == 2 ? nullptr : m.nonce.data();
            re ? ascon128a_aead_reinit(&st->a128a, np, kp) : ascon128a_aead_init(&st->a128a, np, kp);
        }
        ascon128a_aead_start(&st->a128a, ptr(m.ad), m.ad.size());
        break;
    case AE80:
        {
            const uint8_t *np = amode == 1 ? st->a80.nonce : amode == 2 ? nullptr : m.nonce.data();
            re ? ascon80pq_aead_reinit(&st->a80, np, kp) : ascon80pq_aead_init(&st->a80, np, kp);
        }
        ascon80pq_aead_start(&st->a80, ptr(m.ad), m.ad.size());
        break;
    }
}
static void lib_absorb(AnyState *st, int kind, const uint8_t *in, size_t n)
{
    switch (kind) {
    case HASH: ascon_hash_update(&st->hash, in, n); break;
    case HASHA: ascon_hasha_update(&st->hasha, in, n); break;
    case XOF: ascon_xof_absorb(&st->xof, in, n); break;
    case XOFA: ascon_xofa_absorb(&st->xofa, in, n); break;
    case PRF: ascon_prf_absorb(&st->prf, in, n); break;
    case HMAC: ascon_hmac_update(&st->hmac, in, n); break;
    case HMACA: ascon_hmaca_update(&st->hmaca, in, n); break;
    case KMAC: ascon_kmac_absorb(&st->kmac, in, n); break;
    case KMACA: ascon_kmaca_absorb(&st->kmaca, in, n); break;
    }
}
// returns status (hkdf) or 0
static int lib_squeeze(AnyState *st, const Params &p, const Material &m, uint8_t *out, size_t n)
{
    switch (p.kind) {
    case HASH: ascon_hash_finalize(&st->hash, out); break;
    case HASHA: ascon_hasha_finalize(&st->hasha, out); break;
    case XOF: ascon_xof_squeeze(&st->xof, out, n); break;
    case XOFA: ascon_xofa_squeeze(&st->xofa, out, n); break;
    case PRF: ascon_prf_squeeze(&st->prf, out, n); break;
    case HMAC: ascon_hmac_finalize(&st->hmac, ptr(m.key), m.key.size(), out); break;
    case HMACA: ascon_hmaca_finalize(&st->hmaca, ptr(m.key), m.key.size(), out); break;
    case KMAC: ascon_kmac_squeeze(&st->kmac, out, n); break;
    case KMACA: ascon_kmaca_squeeze(&st->kmaca, out, n); break;
    case KDF: ascon_kdf_squeeze(&st->kdf, out, n); break;
    case KDFA: ascon_kdfa_squeeze(&st->kdfa, out, n); break;
    case HKDF: return ascon_hkdf_expand(&st->hkdf, ptr(m.info), m.info.size(), out, n);
    case HKDFA: return ascon_hkdfa_expand(&st->hkdfa, ptr(m.info), m.info.size(), out, n);
    }
    return 0;
}
static void lib_free(AnyState *st, int kind)
{
    switch (kind) {
    case HASH: ascon_hash_free(&st->hash); break;
    case HASHA: ascon_hasha_free(&st->hasha); break;
    case XOF: ascon_xof_free(&st->xof); break;
    case XOFA: ascon_xofa_free(&st->xofa); break;
    case PRF: ascon_prf_free(&st->prf); break;
    case HMAC: ascon_hmac_free(&st->hmac); break;
    case HMACA: ascon_hmaca_free(&st->hmaca); break;
    case KMAC: ascon_kmac_free(&st->kmac); break;
    case KMACA: ascon_kmaca_free(&st->kmaca); break;
    case KDF: ascon_kdf_free(&st->kdf); break;
    case KDFA: ascon_kdfa_free(&st->kdfa); break;
    case HKDF: ascon_hkdf_free(&st->hkdf); break;
    case HKDFA: ascon_hkdfa_free(&st->hkdfa); break;
    case AE128: ascon128_aead_free(&st->a128); break;
    case AE128A: ascon128a_aead_free(&st->a128a); break;
    case AE80: ascon80pq_aead_free(&st->a80); break;
    }
}
static void lib_copy(AnyState *d, const AnyState *s, int kind)
{
    switch (kind) {
    case HASH: ascon_hash_copy(&d->hash, &s->hash); break;
    case HASHA: ascon_hasha_copy(&d->hasha, &s->hasha); break;
    case XOF: ascon_xof_copy(&d->xof, &s->xof); break;
    case XOFA: ascon_xofa_copy(&d->xofa, &s->xofa); break;
    }
}
static void aead_block(AnyState *st, int kind, bool dec, const uint8_t *in, uint8_t *out, size_t n)
{
    switch (kind) {
    case AE128: dec ? ascon128_aead_decrypt_block(&st->a128, in, out, n) : ascon128_aead_encrypt_block(&st->a128, in, out, n); break;
    case AE128A: dec ? ascon128a_aead_decrypt_block(&st->a128a, in, out, n) : ascon128a_aead_encrypt_block(&st->a128a, in, out, n); break;
    case AE80: dec ? ascon80pq_aead_decrypt_block(&st->a80, in, out, n) : ascon80pq_aead_encrypt_block(&st->a80, in, out, n); break;
    }
}
static int aead_final(AnyState *st, int kind, bool dec, uint8_t *tag)
{
    switch (kind) {
    case AE128: if (dec) return ascon128_aead_decrypt_finalize(&st->a128, tag); ascon128_aead_encrypt_finalize(&st->a128, tag); return 0;
    case AE128A: if (dec) return ascon128a_aead_decrypt_finalize(&st->a128a, tag); ascon128a_aead_encrypt_finalize(&st->a128a, tag); return 0;
    default: if (dec) return ascon80pq_aead_decrypt_finalize(&st->a80, tag); ascon80pq_aead_encrypt_finalize(&st->a80, tag); return 0;
    }
}
static void aead_oneshot(int kind, Bytes &ct, const Material &m)
{
    ct.assign(m.msg.size() + 16, 0);
    size_t clen = 0;
    switch (kind) {
    case AE128: ascon128_aead_encrypt(ct.data(), &clen, ptr(m.msg), m.msg.size(), ptr(m.ad), m.ad.size(), m.nonce.data(), m.key.data()); break;
    case AE128A: ascon128a_aead_encrypt(ct.data(), &clen, ptr(m.msg), m.msg.size(), ptr(m.ad), m.ad.size(), m.nonce.data(), m.key.data()); break;
    default: ascon80pq_aead_encrypt(ct.data(), &clen, ptr(m.msg), m.msg.size(), ptr(m.ad), m.ad.size(), m.nonce.data(), m.key.data()); break;
    }
    ct.resize(clen);
}

// Canonical single-call form for `outlen` bytes of output after input `in`.
// `status` receives the status a single expand call reports (hkdf) or 0.
// `earlier`: completed (absorbed bytes, squeezed length) rounds of a session that went back from squeezing to
// absorbing (XOF/XOFA).  The canonical form of such a session is one absorb call and one squeeze call per round.
typedef std::vector<std::pair<Bytes, size_t>> Rounds;
static Bytes canonical(const Params &p, const Material &m, const Bytes &in, size_t outlen, int *status,
                       bool *used_oneshot, const Rounds *earlier = nullptr)
{
    Bytes out(outlen);
    uint8_t dummy[1];
    uint8_t *o = outlen ? out.data() : dummy;
    *status = 0;
    *used_oneshot = true;
    if (earlier && !earlier->empty()) {
        *used_oneshot = false;
        AnyState *st = (AnyState *)aalloc(64, sizeof(AnyState));
        memset(st, 0x3c, sizeof(AnyState));
        lib_init(st, p, m, false);
        for (auto &rd : *earlier) {
            lib_absorb(st, p.kind, ptr(rd.first), rd.first.size());
            Bytes skip(rd.second ? rd.second : 1);
            lib_squeeze(st, p, m, skip.data(), rd.second);
        }
        lib_absorb(st, p.kind, ptr(in), in.size());
        *status = lib_squeeze(st, p, m, o, outlen);
        lib_free(st, p.kind);
        free(st);
        return out;
    }
    switch (p.kind) {
    case HASH: out.resize(32); ascon_hash(out.data(), ptr(in), in.size()); return out;
    case HASHA: out.resize(32); ascon_hasha(out.data(), ptr(in), in.size()); return out;
    case HMAC: out.resize(32); ascon_hmac(out.data(), ptr(m.key), m.key.size(), ptr(in), in.size()); return out;
    case HMACA: out.resize(32); ascon_hmaca(out.data(), ptr(m.key), m.key.size(), ptr(in), in.size()); return out;
    case XOF: if (p.variant == 0 && outlen == 32) { ascon_xof(o, ptr(in), in.size()); return out; } break;
    case XOFA: if (p.variant == 0 && outlen == 32) { ascon_xofa(o, ptr(in), in.size()); return out; } break;
    case PRF:
        if (p.variant == 0) { ascon_prf(o, outlen, ptr(in), in.size(), m.key.data()); return out; }
        if (outlen == p.L) { ascon_prf_fixed(o, outlen, ptr(in), in.size(), m.key.data()); return out; }
        break;
    case KMAC: if (outlen == p.L) { ascon_kmac(ptr(m.key), m.key.size(), ptr(in), in.size(), ptr(m.custom), m.custom.size(), o, outlen); return out; } break;
    case KMACA: if (outlen == p.L) { ascon_kmaca(ptr(m.key), m.key.size(), ptr(in), in.size(), ptr(m.custom), m.custom.size(), o, outlen); return out; } break;
    case KDF: if (outlen == p.L) { ascon_kdf(o, outlen, ptr(m.key), m.key.size(), ptr(m.custom), m.custom.size()); return out; } break;
    case KDFA: if (outlen == p.L) { ascon_kdfa(o, outlen, ptr(m.key), m.key.size(), ptr(m.custom), m.custom.size()); return out; } break;
    case HKDF: if (outlen <= 8160) { *status = ascon_hkdf(o, outlen, ptr(m.key), m.key.size(), ptr(m.custom), m.custom.size(), ptr(m.info), m.info.size()); return out; } break;
    case HKDFA: if (outlen <= 8160) { *status = ascon_hkdfa(o, outlen, ptr(m.key), m.key.size(), ptr(m.custom), m.custom.size(), ptr(m.info), m.info.size()); return out; } break;
    }
    // fresh object, one absorb, one squeeze
    *used_oneshot = false;
    AnyState *st = (AnyState *)aalloc(64, sizeof(AnyState));
    memset(st, 0x3c, sizeof(AnyState));
    lib_init(st, p, m, false);
    if (has_absorb(p.kind)) lib_absorb(st, p.kind, ptr(in), in.size());
    *status = lib_squeeze(st, p, m, o, outlen);
    lib_free(st, p.kind);
    free(st);
    return out;
}

struct Obj {
    bool live = false;
    Params p;
    Material m;
    Bytes in, out;     // transcript of the current round
    Rounds earlier;    // XOF/XOFA: rounds completed before an absorb that followed a squeeze
    int phase = 0;     // 0 absorbing, 1 squeezing, 2 finished
    int status_or = 0; // hkdf: OR of "returned -1"
    Bytes ct;          // AEAD: one-shot ciphertext||tag (library)
    size_t pos = 0;    // AEAD: message bytes consumed
    uint64_t stream = 0; // input stream position seed
    int gen = 0;       // how many objects lived in this slot before
};

struct Residue { int op; int slot; int kind; Bytes bytes; };

struct StreamWorld : World {
    const char *name() const override { return "stream"; }
    enum { NSLOTS = 6 };

    static size_t pick_len(Rng &r, unsigned rate, bool big_ok)
    {
        switch (r.below(12)) {
        case 0: return 0;
        case 1: return 1;
        case 2: return rate - 1;
        case 3: return rate;
        case 4: return rate + 1;
        case 5: return 2 * rate;
        case 6: return 3 * rate + r.below(rate);
        case 7: return r.below(rate);
        case 8: return big_ok ? 200 + r.below(900) : r.below(4 * rate);
        default: return r.below(3 * rate + 2);
        }
    }

    void gen_init(Rng &r, Plan &pl, int slot, const char *opname, int force_kind = -1)
    {
        int kind = force_kind >= 0 ? force_kind : (int)r.below(NKINDS);
        int variant = 0;
        int64_t L = 0, n1 = 0, n2 = 0, n3 = 0;
        switch (kind) {
        case XOF: case XOFA:
            variant = (int)r.below(3);
            if (variant) L = r.pickv({0, 1, 7, 8, 17, 32, 33, 64, 100, 536870911, 536870912, 536870913, 4294967296LL});
            if (variant == 2) { n1 = r.pickv({0, 1, 4, 8, 31, 32, 33, 40}); n2 = r.pickv({0, 0, 1, 7, 8, 9, 16, 23}); }
            break;
        case PRF: variant = (int)r.below(2); if (variant) L = r.pickv({0, 1, 15, 16, 17, 32, 40, 536870911, 536870912}); break;
        case HMAC: case HMACA: n1 = r.pickv({0, 1, 16, 31, 32, 33, 63, 64, 65, 100, 200}); break;
        case KMAC: case KMACA: n1 = r.pickv({0, 1, 8, 16, 20, 33}); n2 = r.pickv({0, 0, 1, 8, 13}); L = r.pickv({32, 32, 0, 1, 16, 31, 33, 64, 536870912}); break;
        case KDF: case KDFA: n1 = r.pickv({0, 1, 8, 16, 20, 33}); n2 = r.pickv({0, 0, 1, 8, 13}); L = r.pickv({0, 1, 16, 32, 33, 64, 536870911, 536870912}); break;
        case HKDF: case HKDFA: n1 = r.pickv({0, 1, 16, 32, 65}); n2 = r.pickv({0, 0, 1, 32, 64, 65, 80}); n3 = r.pickv({0, 1, 10, 32, 40}); break;
        case AE128: case AE128A: case AE80: {
            unsigned rate = kind_rate(kind);
            variant = (int)r.below(5); // 0,3 enc; 1,4 dec; 2 dec tampered
            if (variant == 3) variant = 0;
            if (variant == 4) variant = 1;
            n1 = (int64_t)pick_len(r, rate, false);
            n3 = (int64_t)(r.chance(1, 6) ? 300 + r.below(800) : pick_len(r, rate, false) + pick_len(r, rate, false) + pick_len(r, rate, false));
            break; }
        }
        pl.add(opname, {slot, kind, variant, L, n1, n2, n3, (int64_t)(r.next() >> 1)});
    }

    void gen(Rng &r, Plan &pl, bool thorough) override
    {
        if (getenv("ASIM_HUGE")) {
            // one absorb call of 2^32 + k bytes behind a partly filled block (the lengths are size_t: a partition is a
            // partition, whatever its size); plans of this batch hold nothing else, each costs seconds
            pl.add("huge", {(int64_t)r.below(9), (int64_t)(1 + r.below(7)), (int64_t)r.below(8), (int64_t)(r.next() >> 1)});
            return;
        }
        int ntasks = 1 + (int)r.below(NSLOTS);
        int nops = thorough ? 24 + (int)r.below(41) : 12 + (int)r.below(37);
        bool twin = getenv("ASIM_TWIN") != nullptr;
        if (twin) pl.add("knob.twin", {1});
        pl.add("knob.page", {(int64_t)r.below(4) == 0});
        // model of what is live, to bias the generator towards meaningful ops
        struct G { bool live = false; int kind = 0; int phase = 0; size_t absorbed = 0, squeezed = 0; };
        G g[NSLOTS];
        bool hkdf_long = r.chance(1, 12);
        for (int i = 0; i < nops; ++i) {
            int slot = (int)r.below(ntasks);
            G &o = g[slot];
            if (!o.live) {
                int fk = (hkdf_long && r.chance(1, 2)) ? (r.chance(1, 2) ? HKDF : HKDFA) : -1;
                gen_init(r, pl, slot, "init", fk);
                o.live = true;
                o.kind = (int)pl.ops.back().a[1];
                o.phase = 0; o.absorbed = o.squeezed = 0;
                continue;
            }
            unsigned rate = kind_rate(o.kind);
            unsigned c = (unsigned)r.below(100);
            if (c < 40 && has_absorb(o.kind) && (o.phase == 0 || (o.phase == 1 && (o.kind == XOF || o.kind == XOFA) && r.chance(1, 3)))) {
                o.phase = 0;
                size_t n = pick_len(r, rate, true);
                pl.add("absorb", {slot, (int64_t)n, (int64_t)((r.below(3) == 0 ? 1 : 0) | (r.chance(1, 2) ? 2 : 0))}); // bit 0 in place, bit 1 null pointer for an empty chunk
                o.absorbed += n;
            } else if (c < 43 && (o.kind == XOF || o.kind == XOFA) && o.phase == 0) {
                pl.add("pad", {slot});
            } else if (c < 75 && !is_aead(o.kind)) {
                size_t n = (o.kind == HKDF || o.kind == HKDFA) && hkdf_long ? (r.chance(1, 2) ? 1000 + r.below(3000) : pick_len(r, 32, true))
                                                                            : pick_len(r, o.kind == PRF ? 16 : rate, true);
                pl.add("squeeze", {slot, (int64_t)n});
                o.phase = single_final(o.kind) ? 2 : 1;
                o.squeezed += n;
                if (o.phase == 2) { pl.add("end", {slot}); o.live = false; if (r.chance(1, 2)) { pl.add("free", {slot}); } }
            } else if (c < 82 && copyable(o.kind)) {
                int dst = (int)r.below(NSLOTS);
                if (dst != slot) {
                    pl.add("copy", {dst, slot});
                    g[dst] = o;
                }
            } else if (c < 90) {
                gen_init(r, pl, slot, "reinit", r.chance(3, 4) ? o.kind : -1);
                o.kind = (int)pl.ops.back().a[1];
                o.phase = 0; o.absorbed = o.squeezed = 0;
            } else if (c < 93 && is_aead(o.kind) && r.chance(1, 6)) {
                // the packet is abandoned where it is and the next one started on the same session (no end, no reinit)
                unsigned rt = kind_rate(o.kind);
                pl.add("next", {slot, (int64_t)r.below(3), (int64_t)pick_len(r, rt, false), (int64_t)(pick_len(r, rt, false) + pick_len(r, rt, false)), (int64_t)(r.next() >> 1)});
                o.phase = 0;
            } else if (c < 93) {
                pl.add("end", {slot});
                if (is_aead(o.kind) && r.chance(2, 3)) {
                    // next packet of the same session: start() again on the used state, no reinit
                    unsigned rt = kind_rate(o.kind);
                    pl.add("next", {slot, (int64_t)r.below(3), (int64_t)pick_len(r, rt, false), (int64_t)(pick_len(r, rt, false) + pick_len(r, rt, false)), (int64_t)(r.next() >> 1)});
                    o.phase = 0;
                } else {
                    pl.add("free", {slot});
                    o.live = false;
                }
            } else if (c < 95) {
                switch (r.below(3)) {
                case 0: pl.add("perm", {slot, (int64_t)r.below(12), (int64_t)(r.next() >> 1)}); break;
                case 1: pl.add("sapi", {slot, (int64_t)(1 + r.below(10)), (int64_t)(r.next() >> 1)}); break;
                default: pl.add("oneshot", {slot, (int64_t)r.below(6), (int64_t)r.pickv({0, 1, 7, 8, 15, 16, 17, 31, 32, 33, 40, 64, 65, 100}), (int64_t)r.pickv({0, 1, 8, 15, 16, 17, 32, 40}),
                                            (int64_t)r.pickv({0, 1, 8, 16, 33}), (int64_t)r.below(4), (int64_t)(r.next() >> 1)}); break;
                }
            } else {
                pl.add("free", {slot}); // mid-stream free
                o.live = false;
            }
        }
        for (int s = 0; s < NSLOTS; ++s)
            if (g[s].live) { pl.add("end", {s}); pl.add("free", {s}); }
    }

    // ---- execution ---------------------------------------------------------
    struct Ctx {
        Run *run;
        uint64_t salt;
        bool page;
        AnyState *slots;
        Obj obj[NSLOTS];
        std::vector<Residue> *residue;
        bool record; // fold outputs into history / report violations
    };

    static void check_out(Ctx &c, int slot, const char *site)
    {
        Obj &o = c.obj[slot];
        if (!c.record) return;
        int st = 0;
        bool one = false;
        Bytes want = canonical(o.p, o.m, o.in, o.out.size(), &st, &one, &o.earlier);
        if (single_final(o.p.kind)) want.resize(std::min(want.size(), o.out.size()));
        if (want != o.out) {
            size_t i = 0;
            while (i < want.size() && i < o.out.size() && want[i] == o.out[i]) ++i;
            c.run->violation("C07", "chunk_invariance", std::string(kind_name[o.p.kind]) + "." + site,
                             fmt("kind=%s variant=%d in=%zu out=%zu first_diff=%zu canonical_%s got=%s want=%s",
                                 kind_name[o.p.kind], o.p.variant, o.in.size(), o.out.size(), i,
                                 one ? "oneshot" : "fresh_object", hex(o.out.data() + (i & ~7u), o.out.size() - (i & ~7u), 16).c_str(),
                                 hex(want.data() + (i & ~7u), want.size() - (i & ~7u), 16).c_str()));
        }
        if ((o.p.kind == HKDF || o.p.kind == HKDFA) && (st != 0) != (o.status_or != 0))
            c.run->violation("C07", "hkdf_status", kind_name[o.p.kind],
                             fmt("total=%zu chunked_any_error=%d single_call_status=%d", o.out.size(), o.status_or, st));
        c.run->probe(one ? "canon.oneshot" : "canon.fresh");
    }

    static void do_free(Ctx &c, int slot, bool midstream)
    {
        Obj &o = c.obj[slot];
        if (!o.live) return;
        AnyState *st = &c.slots[slot];
        lib_free(st, o.p.kind);
        if (c.residue) {
            Bytes left((uint8_t *)st, (uint8_t *)st + kind_size(o.p.kind));
            c.residue->push_back(Residue{c.run->cur_op, slot, o.p.kind, left});
            // History independence: the same memory now goes through init (same parameters and material) and free with
            // nothing in between.  Bytes nobody writes keep their value, bytes that init writes and free wipes come out
            // as before; a byte that differs was left over from what happened between init and free in the object's
            // life (message lengths, phase, position in the block): internal state the object held.
            if (c.record) {
                lib_init(st, o.p, o.m, false);
                lib_free(st, o.p.kind);
                c.run->probe("twin.free_vs_unused_object");
                if (memcmp(st, left.data(), left.size()) != 0) {
                    size_t d = 0;
                    while (d < left.size() && ((uint8_t *)st)[d] == left[d]) ++d;
                    c.run->violation("C13", "residue_depends_on_history", kind_name[o.p.kind],
                                     fmt("byte %zu of %zu of the freed object is 0x%02x after this object's history (%zu bytes in, %zu out, phase %d) and 0x%02x after init+free alone",
                                         d, left.size(), left[d], o.in.size(), o.out.size(), o.phase, ((uint8_t *)st)[d]));
                    memcpy(st, left.data(), left.size());
                }
            }
        }
        if (midstream && o.phase != 2 && c.record) c.run->fault("obj.free_midstream");
        o.live = false;
        o.gen++;
    }

    static Params params_of(const Op &op)
    {
        Params p;
        p.kind = (int)(op.u(1) % NKINDS);
        p.variant = (int)op.u(2);
        p.L = op.u(3) >= (1u << 28) ? (size_t)op.u(3) : (size_t)op.u(3) % 5000; // declared lengths around 2^29 are kept (documented switch to arbitrary-length output)
        p.n1 = (size_t)op.u(4) % 300;
        p.n2 = (size_t)op.u(5) % 300;
        p.n3 = (size_t)op.u(6) % 5000;
        p.seed = op.u(7);
        if (p.kind == XOF || p.kind == XOFA) p.variant %= 3;
        else if (p.kind == PRF) p.variant %= 2;
        else if (is_aead(p.kind)) p.variant %= 3;
        else p.variant = 0;
        return p;
    }

    static void do_init(Ctx &c, const Op &op, bool re)
    {
        int slot = (int)(op.u(0) % NSLOTS);
        Obj &o = c.obj[slot];
        AnyState *st = &c.slots[slot];
        Params p = params_of(op);
        bool use_re = re && o.live && o.p.kind == p.kind && p.kind != HKDF && p.kind != HKDFA;
        if (o.live && !use_re) do_free(c, slot, true);
        if (c.record) {
            if (use_re) c.run->fault("obj.reinit");
            else if (o.gen > 0) c.run->fault("obj.dirty_memory_init");
        }
        int gen = o.gen;
        o = Obj();
        o.gen = gen;
        o.live = true;
        o.p = p;
        o.m = material(p, c.salt);
        o.stream = p.seed ^ 0x5151;
        int amode = 0;
        if (is_aead(p.kind)) {
            unsigned sel = (unsigned)((p.seed >> 9) % 12);
            if (sel == 1 && use_re) {
                // re-key and keep the packet counter: the nonce argument is the object's own nonce field
                amode = 1;
                const uint8_t *cur = p.kind == AE128 ? st->a128.nonce : p.kind == AE128A ? st->a128a.nonce : st->a80.nonce;
                o.m.nonce.assign(cur, cur + 16);
                if (c.record) c.run->fault("obj.reinit_with_own_nonce");
            } else if (sel == 2) {
                amode = 2;
                o.m.nonce.assign(16, 0);
                if (c.record) c.run->fault("obj.null_nonce");
            } else if (sel == 3) {
                amode = 3;
                o.m.key.assign(o.m.key.size(), 0);
                if (c.record) c.run->fault("obj.null_key");
            }
        }
        lib_init(st, p, o.m, use_re, amode);
        if (is_aead(p.kind)) {
            aead_oneshot(p.kind, o.ct, o.m);
            if (p.variant == 2) { // tampered copy
                size_t bit = (size_t)(p.seed % (o.ct.size() * 8));
                o.ct[bit / 8] ^= (uint8_t)(1u << (bit % 8));
                if (c.record) c.run->fault("aead.tamper");
            }
        }
        if (c.record) c.run->state(fmt("init/%d/%d/%d", p.kind, p.variant, use_re));
    }

    static void do_absorb(Ctx &c, const Op &op)
    {
        int slot = (int)(op.u(0) % NSLOTS);
        Obj &o = c.obj[slot];
        if (!o.live || !has_absorb(o.p.kind)) return;
        if (o.phase == 1 && (o.p.kind == XOF || o.p.kind == XOFA)) {
            // back from squeezing to absorbing: the round so far is closed (its output has been checked call by call)
            o.earlier.push_back({o.in, o.out.size()});
            o.in.clear();
            o.out.clear();
            o.phase = 0;
            if (c.record) c.run->fault("obj.absorb_after_squeeze");
        }
        if (o.phase != 0) return;
        AnyState *st = &c.slots[slot];
        size_t n = (size_t)op.u(1) % 4096;
        bool inplace = op.u(2) & 1;
        unsigned rate = kind_rate(o.p.kind);
        if (is_aead(o.p.kind)) {
            size_t total = o.m.msg.size();
            n = std::min(n, total - o.pos);
            bool dec = o.p.variant != 0;
            const uint8_t *src = (dec ? o.ct.data() : ptrnz(o.m.msg)) + (n ? o.pos : 0);
            GuardBuf buf(n, (unsigned)(o.pos + slot), c.page);
            if (inplace) {
                if (n) memcpy(buf.p, src, n);
                aead_block(st, o.p.kind, dec, buf.p, buf.p, n);
                if (c.record) c.run->fault("obj.inplace_buffers");
            } else {
                GuardBuf ib(n, (unsigned)(o.pos * 7 + 3), c.page);
                if (n) memcpy(ib.p, src, n);
                aead_block(st, o.p.kind, dec, ib.p, buf.p, n);
                if (c.record && !ib.intact()) c.run->violation("C12", "canary", "aead_block.in", "input canary damaged");
                if (c.record && n && memcmp(ib.p, src, n) != 0) c.run->violation("C12", "stray_write", "aead_block.in", "input buffer modified");
            }
            if (c.record && !buf.intact()) c.run->violation("C12", "canary", "aead_block.out", "output canary damaged");
            o.out.insert(o.out.end(), buf.p, buf.p + n);
            if (c.record) c.run->state(fmt("blk/%d/%d/%u/%s/%d", o.p.kind, dec, (unsigned)(o.pos % rate), n == 0 ? "0" : n < rate ? "<" : n == rate ? "=" : ">", inplace));
            o.pos += n;
            if (c.record) c.run->fold(buf.p, n);
            return;
        }
        GuardBuf ib(n, (unsigned)(o.in.size() + slot), c.page);
        fill_bytes(ib.p, n, mix64(o.stream, o.in.size()) ^ c.salt);
        Bytes chunk = ib.copy();
        lib_absorb(st, o.p.kind, n ? ib.p : (op.u(2) & 2 ? nullptr : ib.p), n);
        if (c.record && (!ib.intact() || chunk != ib.copy())) c.run->violation("C12", "stray_write", std::string(kind_name[o.p.kind]) + ".absorb", "input buffer or canary modified");
        if (c.record) c.run->state(fmt("abs/%d/%d/%u/%s", o.p.kind, o.p.variant, (unsigned)(o.in.size() % rate), n == 0 ? "0" : n < rate ? "<" : n == rate ? "=" : ">"));
        o.in.insert(o.in.end(), chunk.begin(), chunk.end());
    }

    // ascon_xof_pad / ascon_xofa_pad while absorbing: documented as "absorbs enough zeroes to pad the input to the next
    // multiple of the block rate" - so the session must continue exactly as if those zero bytes had been absorbed
    static void do_pad(Ctx &c, const Op &op)
    {
        int slot = (int)(op.u(0) % NSLOTS);
        Obj &o = c.obj[slot];
        if (!o.live || o.phase != 0 || (o.p.kind != XOF && o.p.kind != XOFA)) return;
        AnyState *st = &c.slots[slot];
        if (o.p.kind == XOF) ascon_xof_pad(&st->xof); else ascon_xofa_pad(&st->xofa);
        while (o.in.size() % 8 != 0) o.in.push_back(0);
        if (c.record) { c.run->fault("obj.pad_while_absorbing"); c.run->state(fmt("pad/%d/%d", o.p.kind, o.p.variant)); }
    }

    static void do_squeeze(Ctx &c, const Op &op)
    {
        int slot = (int)(op.u(0) % NSLOTS);
        Obj &o = c.obj[slot];
        if (!o.live || o.phase == 2 || is_aead(o.p.kind)) return;
        AnyState *st = &c.slots[slot];
        size_t n = (size_t)op.u(1) % 9000;
        if (single_final(o.p.kind)) n = 32;
        unsigned rate = o.p.kind == PRF ? 16 : kind_rate(o.p.kind);
        GuardBuf buf(n, (unsigned)(o.out.size() + 5 * slot), c.page);
        int r = lib_squeeze(st, o.p, o.m, buf.p, n);
        if (r != 0) o.status_or = 1;
        if (c.record && !buf.intact()) c.run->violation("C12", "canary", std::string(kind_name[o.p.kind]) + ".squeeze", "output canary damaged");
        if (c.record) c.run->state(fmt("sq/%d/%d/%d/%u/%s", o.p.kind, o.p.variant, o.phase, (unsigned)(o.out.size() % rate), n == 0 ? "0" : n < rate ? "<" : n == rate ? "=" : ">"));
        o.out.insert(o.out.end(), buf.p, buf.p + n);
        o.phase = single_final(o.p.kind) ? 2 : 1;
        if (c.record) { c.run->fold(buf.p, n); c.run->fold_u64((uint64_t)r); }
        if (c.record && o.out.size() > 8160 && (o.p.kind == HKDF || o.p.kind == HKDFA)) c.run->probe("hkdf.limit_crossed");
        check_out(c, slot, "squeeze");
    }

    static void do_end(Ctx &c, const Op &op)
    {
        int slot = (int)(op.u(0) % NSLOTS);
        Obj &o = c.obj[slot];
        if (!o.live) return;
        AnyState *st = &c.slots[slot];
        if (is_aead(o.p.kind)) {
            if (o.phase == 2) return;
            // feed whatever is left as one last chunk, then finalize
            Op rest("absorb", {slot, (int64_t)(o.m.msg.size() - o.pos), 0});
            if (o.pos < o.m.msg.size()) do_absorb(c, rest);
            bool dec = o.p.variant != 0;
            GuardBuf tag(16, (unsigned)slot, c.page);
            if (dec) memcpy(tag.p, o.ct.data() + o.ct.size() - 16, 16);
            int r = aead_final(st, o.p.kind, dec, tag.p);
            o.phase = 2;
            if (!c.record) return;
            c.run->fold_u64((uint64_t)r);
            if (!tag.intact()) c.run->violation("C12", "canary", "aead_final.tag", "tag canary damaged");
            std::string site = std::string(kind_name[o.p.kind]) + (dec ? ".dec" : ".enc");
            if (!dec) {
                Bytes got = o.out;
                got.insert(got.end(), tag.p, tag.p + 16);
                c.run->fold(tag.p, 16);
                if (got != o.ct)
                    c.run->violation("C07", "aead_chunk_invariance", site,
                                     fmt("mlen=%zu adlen=%zu chunked ct||tag differs from one-shot", o.m.msg.size(), o.m.ad.size()));
            } else if (o.p.variant == 1) {
                if (r != 0 || o.out != o.m.msg)
                    c.run->violation("C07", "aead_chunk_invariance", site,
                                     fmt("mlen=%zu adlen=%zu result=%d plaintext_ok=%d", o.m.msg.size(), o.m.ad.size(), r, (int)(o.out == o.m.msg)));
            } else {
                if (r >= 0)
                    c.run->violation("C07", "aead_chunk_invariance", site + ".tampered",
                                     fmt("mlen=%zu tampered ciphertext accepted (result=%d)", o.m.msg.size(), r));
            }
            return;
        }
        if (o.phase == 2) return;
        // make sure every object produces output at least once
        Op sq("squeeze", {slot, single_final(o.p.kind) ? 32 : (int64_t)(o.p.L && o.p.L > o.out.size() && o.p.L - o.out.size() < 300 ? o.p.L - o.out.size() : 16)});
        do_squeeze(c, sq);
        o.phase = 2;
    }

    static void do_copy(Ctx &c, const Op &op)
    {
        int dst = (int)(op.u(0) % NSLOTS), src = (int)(op.u(1) % NSLOTS);
        if (dst == src) return;
        Obj &s = c.obj[src];
        if (!s.live || !copyable(s.p.kind) || s.phase == 2) return;
        if (c.obj[dst].live) do_free(c, dst, true);
        int gen = c.obj[dst].gen;
        lib_copy(&c.slots[dst], &c.slots[src], s.p.kind);
        c.obj[dst] = s;
        c.obj[dst].gen = gen;
        // the clone gets its own input stream so the two suffixes differ
        c.obj[dst].stream = mix64(s.stream, 0xC0C0 + (uint64_t)c.run->cur_op);
        if (c.record) { c.run->fault("obj.copy"); c.run->state(fmt("copy/%d/%d/%u", s.p.kind, s.phase, (unsigned)(s.in.size() % 8))); }
    }

    // Next packet of an incremental AEAD session: start() on the used state (documented multi-packet usage).
    // The nonce the library will use is read from the public field, so nonce arithmetic (C14) is not judged here.
    static void do_next(Ctx &c, const Op &op)
    {
        int slot = (int)(op.u(0) % NSLOTS);
        Obj &o = c.obj[slot];
        if (!o.live || !is_aead(o.p.kind)) return;
        if (o.phase != 2 && c.record) c.run->fault("obj.packet_abandoned");
        AnyState *st = &c.slots[slot];
        o.p.variant = (int)(op.u(1) % 3);
        o.p.n1 = (size_t)(op.u(2) % 300);
        o.p.n3 = (size_t)(op.u(3) % 5000);
        uint64_t sd = op.u(4);
        o.m.ad = bytes_of(o.p.n1, sd ^ 22);
        o.m.msg = bytes_of(o.p.n3, sd ^ 23 ^ c.salt);
        const uint8_t *field = o.p.kind == AE128 ? st->a128.nonce : o.p.kind == AE128A ? st->a128a.nonce : st->a80.nonce;
        o.m.nonce.assign(field, field + 16);
        switch (o.p.kind) {
        case AE128: ascon128_aead_start(&st->a128, ptr(o.m.ad), o.m.ad.size()); break;
        case AE128A: ascon128a_aead_start(&st->a128a, ptr(o.m.ad), o.m.ad.size()); break;
        default: ascon80pq_aead_start(&st->a80, ptr(o.m.ad), o.m.ad.size()); break;
        }
        aead_oneshot(o.p.kind, o.ct, o.m);
        if (o.p.variant == 2) {
            size_t bit = (size_t)(sd % (o.ct.size() * 8));
            o.ct[bit / 8] ^= (uint8_t)(1u << (bit % 8));
            if (c.record) c.run->fault("aead.tamper");
        }
        o.in.clear();
        o.out.clear();
        o.pos = 0;
        o.phase = 0;
        if (c.record) { c.run->fault("obj.next_packet_same_state"); c.run->state(fmt("next/%d/%d", o.p.kind, o.p.variant)); }
    }

    // a bare permutation state used through the public permutation API, then freed (C13: nothing secret may remain)
    static void do_perm(Ctx &c, const Op &op)
    {
        alignas(16) static unsigned char mem[sizeof(ascon_state_t) + 16];
        memset(mem, 0xD7, sizeof mem);
        ascon_state_t *st = (ascon_state_t *)mem;
        uint8_t b[40], o[40];
        fill_bytes(b, 40, op.u(2) ^ c.salt);
        ascon_init(st);
        ascon_overwrite_bytes(st, b, 0, 40);
        ascon_permute(st, (uint8_t)(op.u(1) % 12));
        ascon_add_bytes(st, b, 3, 11);
        ascon_extract_bytes(st, o, 0, 40);
        ascon_free(st);
        if (c.record) c.run->fold(o, 40);
        if (c.residue) c.residue->push_back(Residue{c.run->cur_op, -1, NKINDS, Bytes(mem, mem + sizeof(ascon_state_t))});
    }

    // 4 GiB + k bytes in ONE absorb/update call after `pending` bytes in another, against the single-call function over
    // the same 4 GiB + pending + k bytes.  The input is a read-only mapping of zero pages (no memory is committed).
    static void do_huge(Ctx &c, const Op &op)
    {
        static const char *kn[9] = {"hash", "hasha", "xof", "xofa", "prf", "hmac", "hmaca", "kmac", "kmaca"};
        int kind = (int)(op.u(0) % 9);
        size_t pending = 1 + (size_t)(op.u(1) % 7), extra = (size_t)(op.u(2) % 8);
        size_t big = ((size_t)1 << 32) + extra, total = pending + big;
        uint8_t *z = (uint8_t *)mmap(0, total + 4096, PROT_READ, MAP_PRIVATE | MAP_ANONYMOUS | MAP_NORESERVE, -1, 0);
        if (z == MAP_FAILED) { if (c.record) c.run->probe("huge.mmap_failed"); return; }
        uint8_t key[20], a[32], b[32];
        fill_bytes(key, 20, op.u(3) ^ c.salt);
        switch (kind) {
        case 0: { ascon_hash_state_t h; ascon_hash_init(&h); ascon_hash_update(&h, z, pending); ascon_hash_update(&h, z + pending, big); ascon_hash_finalize(&h, a); ascon_hash(b, z, total); break; }
        case 1: { ascon_hasha_state_t h; ascon_hasha_init(&h); ascon_hasha_update(&h, z, pending); ascon_hasha_update(&h, z + pending, big); ascon_hasha_finalize(&h, a); ascon_hasha(b, z, total); break; }
        case 2: { ascon_xof_state_t x; ascon_xof_init(&x); ascon_xof_absorb(&x, z, pending); ascon_xof_absorb(&x, z + pending, big); ascon_xof_squeeze(&x, a, 32); ascon_xof_free(&x); ascon_xof(b, z, total); break; }
        case 3: { ascon_xofa_state_t x; ascon_xofa_init(&x); ascon_xofa_absorb(&x, z, pending); ascon_xofa_absorb(&x, z + pending, big); ascon_xofa_squeeze(&x, a, 32); ascon_xofa_free(&x); ascon_xofa(b, z, total); break; }
        case 4: { ascon_prf_state_t p; ascon_prf_init(&p, key); ascon_prf_absorb(&p, z, pending); ascon_prf_absorb(&p, z + pending, big); ascon_prf_squeeze(&p, a, 32); ascon_prf_free(&p); ascon_prf(b, 32, z, total, key); break; }
        case 5: { ascon_hmac_state_t h; ascon_hmac_init(&h, key, 20); ascon_hmac_update(&h, z, pending); ascon_hmac_update(&h, z + pending, big); ascon_hmac_finalize(&h, key, 20, a); ascon_hmac(b, key, 20, z, total); break; }
        case 6: { ascon_hmaca_state_t h; ascon_hmaca_init(&h, key, 20); ascon_hmaca_update(&h, z, pending); ascon_hmaca_update(&h, z + pending, big); ascon_hmaca_finalize(&h, key, 20, a); ascon_hmaca(b, key, 20, z, total); break; }
        case 7: { ascon_kmac_state_t k; ascon_kmac_init(&k, key, 16, (const unsigned char *)"huge", 4, 32); ascon_kmac_absorb(&k, z, pending); ascon_kmac_absorb(&k, z + pending, big); ascon_kmac_squeeze(&k, a, 32); ascon_kmac_free(&k); ascon_kmac(key, 16, z, total, (const unsigned char *)"huge", 4, b, 32); break; }
        default: { ascon_kmaca_state_t k; ascon_kmaca_init(&k, key, 16, (const unsigned char *)"huge", 4, 32); ascon_kmaca_absorb(&k, z, pending); ascon_kmaca_absorb(&k, z + pending, big); ascon_kmaca_squeeze(&k, a, 32); ascon_kmaca_free(&k); ascon_kmaca(key, 16, z, total, (const unsigned char *)"huge", 4, b, 32); break; }
        }
        munmap(z, total + 4096);
        if (c.record) {
            c.run->fold(a, 32);
            c.run->fault("len.absorb_call_of_4GiB_plus");
            c.run->state(fmt("huge/%s/%zu/%zu", kn[kind], pending, extra));
            if (memcmp(a, b, 32) != 0)
                c.run->violation("C07", "chunk_invariance", std::string(kn[kind]) + ".huge_call",
                                 fmt("%zu bytes then one call of 2^32+%zu bytes differs from the single-call function over the same %zu bytes", pending, extra, total));
        }
    }

    // Single-call functions that have no incremental counterpart in this world (ASCON-PrfShort, ASCON-Mac and its
    // verification, the two PBKDF2 variants): exact-size buffers, guard pages in page mode, empty inputs as null or
    // non-null pointers.  Their outputs enter the history digest (C09); memory safety is C12's.  What they compute is a
    // pure function of the inputs and is not judged here.
    static void do_oneshot(Ctx &c, const Op &op)
    {
        int kind = (int)(op.u(1) % 6);
        size_t outlen = (size_t)(op.u(2) % 200), inlen = (size_t)(op.u(3) % 100), saltlen = (size_t)(op.u(4) % 100);
        unsigned long count = (unsigned long)(op.u(5) % 4);
        uint64_t sd = op.u(6);
        bool nulls = sd & 1;
        GuardBuf key(16, (unsigned)(sd >> 3), c.page), in(inlen, (unsigned)(sd >> 7), c.page), salt(saltlen, (unsigned)(sd >> 11), c.page);
        fill_bytes(key.p, 16, sd ^ 1 ^ c.salt);
        fill_bytes(in.p, inlen, sd ^ 2 ^ c.salt);
        fill_bytes(salt.p, saltlen, sd ^ 3);
        const uint8_t *ip = inlen || !nulls ? in.p : nullptr, *sp = saltlen || !nulls ? salt.p : nullptr;
        const char *site = "";
        int status = 0;
        Bytes result;
        switch (kind) {
        case 0: { // ASCON-PrfShort: lengths above 16 are documented to be refused with -1
            site = "ascon_prf_short";
            size_t ol = outlen % 20, il = inlen % 20;
            GuardBuf o(ol, (unsigned)(sd >> 15), c.page);
            GuardBuf i2(il, (unsigned)(sd >> 19), c.page);
            fill_bytes(i2.p, il, sd ^ 4 ^ c.salt);
            status = ascon_prf_short(o.p, ol, il || !nulls ? i2.p : nullptr, il, key.p);
            if (c.record && (!o.intact() || !i2.intact())) c.run->violation("C12", "canary", site, fmt("outlen=%zu inlen=%zu", ol, il));
            if (status == 0) result = o.copy();
            break; }
        case 1: case 2: {
            site = kind == 1 ? "ascon_mac" : "ascon_mac_verify";
            GuardBuf t(16, (unsigned)(sd >> 15), c.page);
            ascon_mac(t.p, ip, inlen, key.p);
            if (c.record && !t.intact()) c.run->violation("C12", "canary", "ascon_mac", fmt("inlen=%zu", inlen));
            result = t.copy();
            if (kind == 2) {
                if (sd & 2) t.p[(sd >> 23) % 16] ^= (uint8_t)(1u << ((sd >> 27) % 8));
                status = ascon_mac_verify(t.p, ip, inlen, key.p);
                if (c.record && !t.intact()) c.run->violation("C12", "canary", site, fmt("inlen=%zu", inlen));
            }
            break; }
        case 5: { // ascon_clean on an exact-size region: all of it zero afterwards, nothing around it touched
            site = "ascon_clean";
            GuardBuf o(outlen, (unsigned)(sd >> 15), c.page);
            fill_bytes(o.p, outlen, sd ^ 9 ^ c.salt);
            ascon_clean(o.p, (unsigned)outlen);
            if (c.record && !o.intact()) c.run->violation("C12", "canary", site, fmt("size=%zu", outlen));
            if (c.residue) c.residue->push_back(Residue{c.run->cur_op, -1, NKINDS, o.copy()}); // twin runs: what is left must not depend on what was there
            break; }
        default: {
            site = kind == 3 ? "ascon_pbkdf2" : "ascon_pbkdf2_hmac";
            GuardBuf o(outlen, (unsigned)(sd >> 15), c.page);
            if (kind == 3) ascon_pbkdf2(o.p, outlen, ip, inlen, sp, saltlen, count);
            else ascon_pbkdf2_hmac(o.p, outlen, ip, inlen, sp, saltlen, count);
            if (c.record && !o.intact()) c.run->violation("C12", "canary", site, fmt("outlen=%zu passwordlen=%zu saltlen=%zu count=%lu", outlen, inlen, saltlen, count));
            result = o.copy();
            break; }
        }
        if (c.record) {
            if (!key.intact() || !in.intact() || !salt.intact()) c.run->violation("C12", "stray_write", site, "an input buffer or the bytes around it were modified");
            c.run->fold_bytes(result);
            c.run->fold_u64((uint64_t)(int64_t)status);
            c.run->state(fmt("oneshot/%d/%s/%s/%d", kind, outlen == 0 ? "0" : outlen % 32 == 0 ? "k" : "p", inlen == 0 ? (nulls ? "null" : "0") : "n", status != 0));
        }
    }

    // The byte-access interface of the permutation state, as a caller may use it: every (offset, size) with
    // offset + size <= 40 (zero sizes and ranges ending exactly at byte 40 included), exact-size data buffers,
    // a state object that ends where its 40 bytes end (guard bytes or a guard page behind it), identical input and
    // output for extract-and-overwrite.  Outputs go into the history digest (C09); overruns are C12's.
    static void do_sapi(Ctx &c, const Op &op)
    {
        unsigned steps = (unsigned)(op.u(1) % 11);
        Rng r(op.u(2));
        GuardBuf sb(sizeof(ascon_state_t), 0, c.page, 0xD7);
        ascon_state_t *st = (ascon_state_t *)sb.p;
        uint8_t seed[40];
        fill_bytes(seed, 40, op.u(2) ^ c.salt);
        ascon_init(st);
        ascon_overwrite_bytes(st, seed, 0, 40);
        for (unsigned k = 0; k < steps; ++k) {
            unsigned off, size;
            switch (r.below(5)) {
            case 0: off = (unsigned)r.below(41); size = 40 - off; break;                        // ends exactly at byte 40
            case 1: off = (unsigned)r.below(41); size = 0; break;                               // empty range anywhere, offset 40 included
            case 2: off = (unsigned)(8 * r.below(5)); size = (unsigned)r.below(40 - off + 1); break; // starts on a word
            default: off = (unsigned)r.below(41); size = (unsigned)r.below(40 - off + 1); break;
            }
            int kind = (int)r.below(9);
            GuardBuf in(size, (unsigned)r.below(16), c.page), out(size, (unsigned)r.below(16), c.page);
            fill_bytes(in.p, size, r.next() ^ c.salt);
            const char *site = "";
            switch (kind) {
            case 0: site = "ascon_add_bytes"; ascon_add_bytes(st, in.p, off, size); break;
            case 1: site = "ascon_overwrite_bytes"; ascon_overwrite_bytes(st, in.p, off, size); break;
            case 2: site = "ascon_overwrite_with_zeroes"; ascon_overwrite_with_zeroes(st, off, size); break;
            case 3: site = "ascon_extract_bytes"; ascon_extract_bytes(st, out.p, off, size); break;
            case 4: site = "ascon_extract_and_add_bytes"; ascon_extract_and_add_bytes(st, in.p, out.p, off, size); break;
            case 5: site = "ascon_extract_and_overwrite_bytes"; ascon_extract_and_overwrite_bytes(st, in.p, out.p, off, size); break;
            case 6: site = "ascon_extract_and_overwrite_bytes(in place)"; memcpy(out.p, in.p, size); ascon_extract_and_overwrite_bytes(st, out.p, out.p, off, size); break;
            case 7: site = "ascon_permute"; ascon_permute(st, (uint8_t)r.below(12)); break;
            default: { // ascon_copy into a second exact-size state: nothing outside the destination may move
                site = "ascon_copy";
                GuardBuf cb(sizeof(ascon_state_t), 0, c.page, 0x3C);
                ascon_state_t *cp = (ascon_state_t *)cb.p;
                uint8_t a[40], b2[40];
                // documented protocol: destination acquired, source released (the checker build allows one acquired state at a time)
                ascon_release(st);
                ascon_init(cp);
                ascon_copy(cp, st);
                ascon_extract_bytes(cp, b2, 0, 40);
                ascon_free(cp);
                ascon_acquire(st);
                ascon_extract_bytes(st, a, 0, 40);
                if (c.record) {
                    // (whether the copy equals the original is C08 matter - a pure function, not claimed; the bytes enter the C09 digest)
                    (void)a;
                    if (!cb.intact()) c.run->violation("C12", "canary", site, "bytes around the destination state were written");
                    c.run->fold(b2, 40);
                }
                break; }
            }
            if (c.record) {
                if (!sb.intact()) c.run->violation("C12", "canary", site, fmt("bytes around the 40-byte state were written (offset=%u size=%u)", off, size));
                if (!in.intact() || !out.intact()) c.run->violation("C12", "canary", site, fmt("bytes outside the data range were written (offset=%u size=%u)", off, size));
                if (kind >= 3 && kind <= 6) c.run->fold(out.p, size);
                c.run->state(fmt("sapi/%d/%s/%s", kind, size == 0 ? "0" : off + size == 40 ? "end" : (off & 7) ? "odd" : "word", size < 8 ? "<8" : ">=8"));
            }
        }
        uint8_t o[40];
        ascon_extract_bytes(st, o, 0, 40);
        ascon_free(st);
        if (c.record) { c.run->fold(o, 40); c.run->probe("sapi.sequences"); }
        if (c.residue) c.residue->push_back(Residue{c.run->cur_op, -1, NKINDS, Bytes(sb.p, sb.p + sizeof(ascon_state_t))});
    }

    void pass(const Plan &plan, Run &run, uint64_t salt, std::vector<Residue> *res, bool record)
    {
        Ctx c;
        c.run = &run;
        c.salt = salt;
        c.page = plan.knob("page", 0) != 0;
        c.residue = res;
        c.record = record;
        c.slots = (AnyState *)aalloc(64, sizeof(AnyState) * NSLOTS);
        memset(c.slots, 0xD7, sizeof(AnyState) * NSLOTS);
        int idx = 0;
        for (const Op &op : plan.ops) {
            run.cur_op = idx++;
            if (op.name.compare(0, 5, "knob.") == 0) continue;
            if (record) { run.ops_done++; run.task((int64_t)(op.u(0) % NSLOTS)); }
            if (op.name == "init") do_init(c, op, false);
            else if (op.name == "reinit") do_init(c, op, true);
            else if (op.name == "absorb") do_absorb(c, op);
            else if (op.name == "squeeze") do_squeeze(c, op);
            else if (op.name == "end") do_end(c, op);
            else if (op.name == "copy") do_copy(c, op);
            else if (op.name == "free") do_free(c, (int)(op.u(0) % NSLOTS), true);
            else if (op.name == "perm") do_perm(c, op);
            else if (op.name == "sapi") do_sapi(c, op);
            else if (op.name == "oneshot") do_oneshot(c, op);
            else if (op.name == "pad") do_pad(c, op);
            else if (op.name == "huge") do_huge(c, op);
            else if (op.name == "next") do_next(c, op);
        }
        for (int s = 0; s < NSLOTS; ++s) do_free(c, s, false);
        free(c.slots);
    }

    void exec(const Plan &plan, Run &run) override
    {
        bool twin = plan.knob("twin", 0) != 0;
        std::vector<Residue> r1, r2;
        pass(plan, run, 0, twin ? &r1 : nullptr, true);
        if (twin) {
            pass(plan, run, 0x7e57ab1e5ec2e7ULL, &r2, false);
            size_t n = std::min(r1.size(), r2.size());
            for (size_t i = 0; i < n; ++i) {
                run.probe("twin.free_compared");
                if (r1[i].bytes != r2[i].bytes) {
                    size_t d = 0;
                    while (d < r1[i].bytes.size() && r1[i].bytes[d] == r2[i].bytes[d]) ++d;
                    run.cur_op = r1[i].op;
                    run.violation("C13", "residue_after_free", r1[i].kind == NKINDS ? "ascon_state_t" : kind_name[r1[i].kind],
                                  fmt("object bytes after free differ between twin-secret runs at offset %zu of %zu", d, r1[i].bytes.size()));
                }
            }
        }
    }
};

int main(int argc, char **argv)
{
    StreamWorld w;
    return worker_main(argc, argv, w);
}
