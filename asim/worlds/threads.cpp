// World `threads`: callers on many threads (C16).  Real pthreads, exactly one
// runnable at a time (baton over semaphores); the seeded scheduler may pre-empt
// at every instrumented load, store and function entry of the library (clang
// -fsanitize-coverage=func,trace-pc-guard,trace-loads,trace-stores; callbacks
// below) and at wrapped libc range operations.  The harness's own race detector
// sees every such access; TSan would see nothing under a serialising scheduler.
#define ASIM_MAIN 1
#include "core/asim.h"
#include "seams/simrng.h"
#include "core/symtab.h"
#include <ascon/aead.h>
#include <ascon/aead-masked.h>
#include <ascon/siv.h>
#include <ascon/isap.h>
#include <ascon/hash.h>
#include <ascon/xof.h>
#include <ascon/prf.h>
#include <ascon/hmac.h>
#include <ascon/kmac.h>
#include <ascon/hkdf.h>
#include <ascon/kdf.h>
#include <ascon/pbkdf2.h>
#include <ascon/random.h>
#include <ascon/masking.h>
#include <ascon/permutation.h>
#include <ascon/storage.h>
#include <ascon/utility.h>
#include <pthread.h>
#include <semaphore.h>
#include <dlfcn.h>
#include <memory>
#include <new>

using namespace asim;

enum { MAXT = 8 };

// ---------------------------------------------------------------------------
// Scheduler + detector state (touched only by the thread that holds the baton)
struct Gran { uint8_t r[MAXT], w[MAXT]; };

// Shadow memory: open-addressing table allocated once per process, emptied by bumping a generation
// (no allocation and no libc call while the detector runs, so it cannot re-enter itself).
struct ShadowEnt { uintptr_t key; uint32_t gen; Gran g; };
enum { SHADOW_BITS = 17, SHADOW_SIZE = 1 << SHADOW_BITS };
static ShadowEnt *g_shadow = nullptr;
static uint32_t g_shadow_gen = 0;
static uint64_t g_shadow_used = 0;
static Gran *shadow_get(uintptr_t key)
{
    uint64_t h = key * 0x9E3779B97F4A7C15ULL;
    for (unsigned probe = 0; probe < 64; ++probe) {
        ShadowEnt &e = g_shadow[(h >> (64 - SHADOW_BITS)) + probe & (SHADOW_SIZE - 1)];
        if (e.gen == g_shadow_gen && e.key == key) return &e.g;
        if (e.gen != g_shadow_gen) {
            if (g_shadow_used > SHADOW_SIZE * 7 / 10) return nullptr;
            e.key = key; e.gen = g_shadow_gen;
            for (int i = 0; i < MAXT; ++i) e.g.r[i] = e.g.w[i] = 0;
            g_shadow_used++;
            return &e.g;
        }
    }
    return nullptr;
}

struct Sim {
    bool concurrent = false;          // worker threads are live
    bool seq_pass = false;            // the sequential reference pass is running (main thread)
    int nthreads = 0;
    sem_t sem[MAXT + 1];              // [MAXT] = main
    bool done[MAXT];
    int running = -1;
    Rng sched{1};
    int mode = 0;                     // 0 Bernoulli, 1 change points
    uint64_t rate = 100;
    uint64_t steps = 0;
    uint64_t step_cap = 40000000;
    std::vector<uint64_t> change_points;
    size_t next_cp = 0;
    uint64_t switch_hash = 0xcbf29ce484222325ULL;
    uint64_t switches = 0;
    uint64_t preempt_site[4] = {0, 0, 0, 0}; // load, store, func, libc
    uint64_t accesses = 0;
    uint64_t shadow_full = 0;
    uintptr_t data_lo = 0, data_hi = 0;
    // verdicts (filled by callbacks, reported by the world afterwards)
    std::string race_site, race_detail, glob_site, glob_detail;
    uint64_t races = 0, glob_writes = 0;
    bool cap_hit = false;
};
static Sim *g = nullptr;
static __thread int t_id = -1;          // worker index of this thread, -1 = not a worker
static __thread int t_in_lib = 0;       // >0 while this thread executes a library call
static __thread int t_in_det = 0;       // >0 while the detector/scheduler itself runs (no re-entry)
static __thread uintptr_t t_stack_lo = 0, t_stack_hi = 0;

extern "C" char __data_start, _end;
// writable static storage brought along by assembly objects (see _asm_storage_named in checks.py); absent = null
extern "C" { extern char __start_asmbss __attribute__((weak)), __stop_asmbss __attribute__((weak)), __start_asmdata __attribute__((weak)), __stop_asmdata __attribute__((weak)); }

static asim::SymTab g_symtab;
static std::string sym_of(void *pc) { return g_symtab.lookup(pc); }

static void pass_baton(int to)
{
    int me = t_id;
    g->running = to;
    g->switches++;
    g->switch_hash = fnv(&g->steps, sizeof g->steps, g->switch_hash);
    g->switch_hash = fnv(&to, sizeof to, g->switch_hash);
    sem_post(&g->sem[to < 0 ? MAXT : to]);
    if (me >= 0 && !g->done[me]) sem_wait(&g->sem[me]);
}

static int pick_other(int me)
{
    int cand[MAXT], n = 0;
    for (int i = 0; i < g->nthreads; ++i) if (i != me && !g->done[i]) cand[n++] = i;
    if (!n) return -1;
    return cand[g->sched.below((uint64_t)n)];
}

// a potential pre-emption point, kind: 0 load, 1 store, 2 function entry, 3 libc range op
static void yield_point(int kind)
{
    if (!g || !g->concurrent || t_id < 0 || t_in_det) return;
    g->steps++;
    if (g->steps > g->step_cap) { g->cap_hit = true; return; }
    bool sw;
    if (g->mode == 0) sw = g->sched.below(g->rate) == 0;
    else { sw = g->next_cp < g->change_points.size() && g->steps >= g->change_points[g->next_cp]; if (sw) g->next_cp++; }
    if (!sw) return;
    int to = pick_other(t_id);
    if (to < 0) return;
    g->preempt_site[kind]++;
    pass_baton(to);
}

static void on_access(uintptr_t a, unsigned size, bool write, void *pc)
{
    // the sequential reference pass runs the same operations first, in this process: a library that builds a table or
    // seeds a generator in static storage on first use does it THERE, so stores to static storage count there too
    if (g && g->seq_pass && t_in_lib && !t_in_det && write && a >= g->data_lo && a < g->data_hi) {
        ++t_in_det;
        g->glob_writes++;
        if (g->glob_site.empty()) { g->glob_site = sym_of(pc); g->glob_detail = fmt("store of %u bytes to static storage at offset 0x%lx during the sequential reference pass (first use)", size, (unsigned long)(a - g->data_lo)); }
        --t_in_det;
        return;
    }
    if (!g || !g->concurrent || t_id < 0 || !t_in_lib || t_in_det) return;
    if (a >= t_stack_lo && a < t_stack_hi) { yield_point(write ? 1 : 0); return; }
    ++t_in_det;
    g->accesses++;
    if (write && a >= g->data_lo && a < g->data_hi) {
        g->glob_writes++;
        if (g->glob_site.empty()) { g->glob_site = sym_of(pc); g->glob_detail = fmt("store of %u bytes to static storage at offset 0x%lx by thread %d", size, (unsigned long)(a - g->data_lo), t_id); }
    }
    unsigned done = 0;
    while (done < size) {
        uintptr_t ga = (a + done) >> 3;
        unsigned off = (unsigned)((a + done) & 7), n = std::min(8 - off, size - done);
        uint8_t m = (uint8_t)(((1u << n) - 1) << off);
        Gran *grp = shadow_get(ga);
        if (!grp) { g->shadow_full++; done += n; continue; }
        Gran &gr = *grp;
        for (int u = 0; u < g->nthreads; ++u) {
            if (u == t_id) continue;
            if ((gr.w[u] & m) || (write && (gr.r[u] & m))) {
                g->races++;
                if (g->race_site.empty()) {
                    g->race_site = sym_of(pc);
                    g->race_detail = fmt("%s of %u bytes at %s+0x%lx by thread %d conflicts with an earlier %s by thread %d (no synchronisation between them)",
                                         write ? "store" : "load", size, (a >= g->data_lo && a < g->data_hi) ? "static storage" : "shared object",
                                         (unsigned long)(a & 0xfff), t_id, (gr.w[u] & m) ? "store" : "load", u);
                }
            }
        }
        if (write) gr.w[t_id] |= m; else gr.r[t_id] |= m;
        done += n;
    }
    --t_in_det;
    yield_point(write ? 1 : 0);
}

// Heap blocks: a block that is freed and handed out again (possibly to another thread) is a new object; the
// allocator's own lock orders the two lives, so the shadow of the block is forgotten when it is freed.
#include <malloc.h>
static void shadow_forget(void *p)
{
    if (!g || !g->concurrent || !p || !g_shadow) return;
    size_t n = malloc_usable_size(p);
    ++t_in_det;
    for (uintptr_t ga = (uintptr_t)p >> 3; ga <= ((uintptr_t)p + n) >> 3; ++ga) {
        uint64_t h = ga * 0x9E3779B97F4A7C15ULL;
        for (unsigned probe = 0; probe < 64; ++probe) {
            ShadowEnt &e = g_shadow[((h >> (64 - SHADOW_BITS)) + probe) & (SHADOW_SIZE - 1)];
            if (e.gen != g_shadow_gen) break;
            if (e.key == ga) { for (int i = 0; i < MAXT; ++i) e.g.r[i] = e.g.w[i] = 0; break; }
        }
    }
    --t_in_det;
}
void *operator new(size_t n) { void *p = malloc(n ? n : 1); if (!p) throw std::bad_alloc(); return p; }
void *operator new[](size_t n) { return operator new(n); }
void operator delete(void *p) noexcept { if (t_in_lib) shadow_forget(p); free(p); }
void operator delete[](void *p) noexcept { operator delete(p); }
void operator delete(void *p, size_t) noexcept { operator delete(p); }
void operator delete[](void *p, size_t) noexcept { operator delete(p); }

extern "C" {
void __real_free(void *);
void __wrap_free(void *p) { if (t_in_lib) shadow_forget(p); __real_free(p); }
void __sanitizer_cov_load1(uint8_t *a) { on_access((uintptr_t)a, 1, false, __builtin_return_address(0)); }
void __sanitizer_cov_load2(uint16_t *a) { on_access((uintptr_t)a, 2, false, __builtin_return_address(0)); }
void __sanitizer_cov_load4(uint32_t *a) { on_access((uintptr_t)a, 4, false, __builtin_return_address(0)); }
void __sanitizer_cov_load8(uint64_t *a) { on_access((uintptr_t)a, 8, false, __builtin_return_address(0)); }
void __sanitizer_cov_load16(void *a) { on_access((uintptr_t)a, 16, false, __builtin_return_address(0)); }
void __sanitizer_cov_store1(uint8_t *a) { on_access((uintptr_t)a, 1, true, __builtin_return_address(0)); }
void __sanitizer_cov_store2(uint16_t *a) { on_access((uintptr_t)a, 2, true, __builtin_return_address(0)); }
void __sanitizer_cov_store4(uint32_t *a) { on_access((uintptr_t)a, 4, true, __builtin_return_address(0)); }
void __sanitizer_cov_store8(uint64_t *a) { on_access((uintptr_t)a, 8, true, __builtin_return_address(0)); }
void __sanitizer_cov_store16(void *a) { on_access((uintptr_t)a, 16, true, __builtin_return_address(0)); }
void __sanitizer_cov_trace_pc_guard_init(uint32_t *start, uint32_t *stop) { for (uint32_t *p = start; p < stop; ++p) if (!*p) *p = 1; }
void __sanitizer_cov_trace_pc_guard(uint32_t *) { if (t_in_lib && !t_in_det) yield_point(2); }

// libc range operations called from library code (the only libc symbols it references)
void *__real_memcpy(void *, const void *, size_t);
void *__real_memset(void *, int, size_t);
void __real_explicit_bzero(void *, size_t);
void *__wrap_memcpy(void *d, const void *s, size_t n)
{
    if (t_in_lib && !t_in_det && g && g->concurrent && n) {
        void *pc = __builtin_return_address(0);
        for (size_t i = 0; i < n; i += 8) { on_access((uintptr_t)s + i, (unsigned)std::min<size_t>(8, n - i), false, pc); }
        for (size_t i = 0; i < n; i += 8) { on_access((uintptr_t)d + i, (unsigned)std::min<size_t>(8, n - i), true, pc); }
    }
    return __real_memcpy(d, s, n);
}
void *__wrap_memset(void *d, int c, size_t n)
{
    if (t_in_lib && !t_in_det && g && g->concurrent && n) {
        void *pc = __builtin_return_address(0);
        for (size_t i = 0; i < n; i += 8) on_access((uintptr_t)d + i, (unsigned)std::min<size_t>(8, n - i), true, pc);
    }
    return __real_memset(d, c, n);
}
void __wrap_explicit_bzero(void *d, size_t n)
{
    if (t_in_lib && !t_in_det && g && g->concurrent && n) {
        void *pc = __builtin_return_address(0);
        for (size_t i = 0; i < n; i += 8) on_access((uintptr_t)d + i, (unsigned)std::min<size_t>(8, n - i), true, pc);
    }
    __real_explicit_bzero(d, n);
}
#if defined(ASIM_WRAP_PERMUTE)
// assembly permutation backend: opaque to the instrumentation, modelled as read+write of the 40 state bytes
void __real_ascon_permute(ascon_state_t *state, uint8_t first_round);
void __wrap_ascon_permute(ascon_state_t *state, uint8_t first_round)
{
    if (t_in_lib && !t_in_det && g && g->concurrent) {
        void *pc = __builtin_return_address(0);
        for (int i = 0; i < 40; i += 8) on_access((uintptr_t)state + i, 8, false, pc);
        for (int i = 0; i < 40; i += 8) on_access((uintptr_t)state + i, 8, true, pc);
    }
    __real_ascon_permute(state, first_round);
}
#endif
}

// ---------------------------------------------------------------------------
struct Shared {               // created by the main thread before the workers start, then read-only
    ascon128_isap_aead_key_t ik128;
    ascon128a_isap_aead_key_t ik128a;
    ascon80pq_isap_aead_key_t ik80;
    ascon_masked_key_128_t mk128;
    ascon_masked_key_160_t mk160;
    uint8_t key[20], nonce[16], ad[64], msg[256];
    uint8_t saved128a[ASCON_ISAP_SAVED_KEY_SIZE];
    uint8_t slice_ct[13 + 16];  // one ISAP-A-128A packet (13-byte payload) that every thread may decrypt ...
    uint8_t slices[16 * 13 + 8]; // ... into its own 13-byte slice of this buffer: neighbours touch, they never overlap
    ascon_xof_state_t xsrc;    // a partly absorbed XOF state and hash state that every thread may copy from
    ascon_hasha_state_t hsrc;
    ascon_storage_t store;     // one constant storage descriptor for the generators of all threads (the medium behind it is per thread)
};

struct ThreadCtx {
    int id;
    std::vector<Op> ops;
    simrng_t rng;
    alignas(64) uint8_t out[1024];
    alignas(64) uint8_t tmp[1024];
    alignas(64) uint8_t key[32];
    alignas(64) uint8_t nonce[16];
    alignas(64) ascon_random_state_t prng;
    std::vector<uint64_t> results;
    Shared *sh;
    char pad[64];
};

#define LIB(x) do { ++t_in_lib; x; --t_in_lib; } while (0)
// in a third of the operations the packet is corrupted on its way back, so that the failure paths of
// decryption (which receive the same shared const keys) run concurrently too
#define TAMPER() do { if (tamper && clen) T.out[(sd >> 8) % clen] ^= (uint8_t)(1u << (sd & 7)); } while (0)

static const int NOPK = 28;
static const char *opk_name[NOPK] = {"hash", "hasha", "xof", "aead128", "aead128a", "aead80pq", "inc128", "siv128", "siv80pq", "isap128_shared",
                                     "isap128a_shared", "isap80pq_shared", "masked128_shared", "masked80pq_shared", "prf_hmac", "kmac_hkdf", "random", "prng",
                                     "cpp_aead", "cpp_isap_saved_key", "cpp_hash_xof", "cpp_siv_masked",
                                     "masked_key_toolkit", "copy_from_shared_reinit_hex_state", "prng_reseed_save_load", "adjacent_output_slices",
                                     "prng_shared_const_storage", "adjacent_input_slices"};

// the ISAP classes take (key, len), the others take (key)
template <class E> static auto make_keyed(const uint8_t *k, size_t klen) -> decltype(E(k, klen)) { return E(k, klen); }
template <class E, class... X> static E make_keyed(const uint8_t *k, X...) { return E(k); }

// one C++ cipher class: key constructor + encrypt on one object, default constructor + set_key + set_counter +
// set_nonce + decrypt (+ clear) on another; raw-pointer overloads only (no allocation inside the library)
template <class E>
static void cpp_pair(ThreadCtx &T, const uint8_t *k, size_t klen, const uint8_t *n, const uint8_t *m, size_t mlen, const uint8_t *a, size_t adlen,
                     bool tamper, uint64_t sd, size_t &clen, size_t &plen, int &r)
{
    E e = make_keyed<E>(k, klen);
    e.set_nonce(n, 16);
    if (sd & (1u << 21)) {
        // byte_array overloads: the library allocates; the allocator hooks above keep block reuse from faking a race
        ascon::byte_array cv, mv(m, m + mlen), av(a, a + adlen);
        e.encrypt(cv, mv, av);
        r = (int)cv.size();
        if (!cv.empty()) memcpy(T.out, cv.data(), cv.size());
    } else r = e.encrypt(T.out, m, mlen, a, adlen);
    clen = r < 0 ? 0 : (size_t)r;
    if (tamper && clen) T.out[(sd >> 8) % clen] ^= (uint8_t)(1u << (sd & 7));
    E d;
    d.set_key(k, klen);
    d.set_counter(7);
    d.set_nonce(n, 16);
    r = d.decrypt(T.tmp, T.out, clen, a, adlen);
    plen = r < 0 ? 0 : (size_t)r;
    e.clear();
}

// per-thread non-volatile storage for ascon_random_save_seed / load_seed (32 bytes inside the thread's own tmp area)
struct ThrStore { ascon_storage_t st; uint8_t *mem; };
// callbacks of the SHARED descriptor: the medium, the fault script and the call log belong to the calling thread
static thread_local uint8_t *t_store_mem;
static thread_local int t_store_fail;
static thread_local uint64_t t_store_log;
static int shr_store_read(const ascon_storage_t *, size_t off, unsigned char *d, size_t n) { memcpy(d, t_store_mem + off, n); return (int)n; }
static int shr_store_write(const ascon_storage_t *, size_t off, const unsigned char *d, size_t n, int erase)
{
    t_store_log = t_store_log * 31 + (erase ? 7 : 3) + off;
    if (t_store_fail > 0) { --t_store_fail; return 0; }
    memcpy(t_store_mem + off, d, n);
    return (int)n;
}
static int thr_store_read(const ascon_storage_t *s, size_t off, unsigned char *d, size_t n) { memcpy(d, ((const ThrStore *)s)->mem + off, n); return (int)n; }
static int thr_store_write(const ascon_storage_t *s, size_t off, const unsigned char *d, size_t n, int) { memcpy(((const ThrStore *)s)->mem + off, d, n); return (int)n; }

static uint64_t run_op(ThreadCtx &T, const Op &op)
{
    int kind = (int)(op.u(0) % NOPK);
    size_t mlen = (size_t)(op.u(1) % 200), adlen = (size_t)(op.u(2) % 60);
    uint64_t sd = op.u(3);
    Shared &S = *T.sh;
    bool use_shared_const = op.u(4) & 1;
    bool tamper = (op.u(4) & 6) == 2;
    // a quarter of the operations run with this thread's system entropy source failing permanently: failure paths
    // (zero seeds, status results) must be as free of shared state as the healthy ones
    bool rng_dead = (op.u(4) & 24) == 8;
    if (rng_dead) simrng_arm(&T.rng, 0, 1);
    unsigned v = (unsigned)(sd >> 11); // variant selector
    // private inputs
    alignas(64) static __thread uint8_t msg[256], ad[64];
    fill_bytes(msg, sizeof msg, sd ^ 1); // whole buffers: some operations read a fixed number of bytes whatever mlen is
    fill_bytes(ad, sizeof ad, sd ^ 2);
    fill_bytes(T.key, 20, sd ^ 3);
    fill_bytes(T.nonce, 16, sd ^ 4);
    const uint8_t *m = use_shared_const ? S.msg : msg, *a = use_shared_const ? S.ad : ad;
    const uint8_t *k = use_shared_const ? S.key : T.key, *n = use_shared_const ? S.nonce : T.nonce;
    size_t clen = 0, plen = 0;
    int r = 0;
    memset(T.out, 0, sizeof T.out);
    switch (kind) {
    // every variant of every family is called somewhere (`v` selects it), so that a static scratch buffer or a
    // lazily initialised table in any of them is at least written once under the detector
    case 0: if (v & 1) LIB(ascon_hash(T.out, m, mlen));
            else { ascon_hash_state_t h, h2; LIB(ascon_hash_init(&h); ascon_hash_update(&h, m, mlen / 2); ascon_hash_copy(&h2, &h); ascon_hash_update(&h2, m + mlen / 2, mlen - mlen / 2); ascon_hash_finalize(&h2, T.out); ascon_hash_reinit(&h); ascon_hash_free(&h); ascon_hash_free(&h2)); }
            clen = 32; break;
    case 1: if (v & 1) LIB(ascon_hasha(T.out, m, mlen));
            else { ascon_hasha_state_t h, h2; LIB(ascon_hasha_init(&h); ascon_hasha_update(&h, m, mlen / 2); ascon_hasha_copy(&h2, &h); ascon_hasha_update(&h2, m + mlen / 2, mlen - mlen / 2); ascon_hasha_finalize(&h2, T.out); ascon_hasha_reinit(&h); ascon_hasha_free(&h); ascon_hasha_free(&h2)); }
            clen = 32; break;
    case 2: {
        if (v & 1) { ascon_xof_state_t x; LIB(if (v & 2) ascon_xof_init_fixed(&x, 40); else if (v & 4) ascon_xof_init_custom(&x, "thr", a, adlen % 9, 40); else ascon_xof_init(&x);
                                          ascon_xof_absorb(&x, m, mlen); ascon_xof_squeeze(&x, T.out, 40); ascon_xof_pad(&x); ascon_xof_free(&x); ascon_xof(T.out + 40, m, mlen)); }
        else { ascon_xofa_state_t x; LIB(if (v & 2) ascon_xofa_init_fixed(&x, 40); else if (v & 4) ascon_xofa_init_custom(&x, "thr", a, adlen % 9, 40); else ascon_xofa_init(&x);
                                         ascon_xofa_absorb(&x, m, mlen); ascon_xofa_squeeze(&x, T.out, 40); ascon_xofa_pad(&x); ascon_xofa_free(&x); ascon_xofa(T.out + 40, m, mlen)); }
        clen = 72; break; }
    case 3: LIB(ascon128_aead_encrypt(T.out, &clen, m, mlen, a, adlen, n, k)); TAMPER(); LIB(r = ascon128_aead_decrypt(T.tmp, &plen, T.out, clen, a, adlen, n, k)); break;
    case 4: LIB(ascon128a_aead_encrypt(T.out, &clen, m, mlen, a, adlen, n, k)); TAMPER(); LIB(r = ascon128a_aead_decrypt(T.tmp, &plen, T.out, clen, a, adlen, n, k)); break;
    case 5: LIB(ascon80pq_aead_encrypt(T.out, &clen, m, mlen, a, adlen, n, k)); TAMPER(); LIB(r = ascon80pq_aead_decrypt(T.tmp, &plen, T.out, clen, a, adlen, n, k)); break;
    case 6: {
        size_t h1 = mlen / 2, h2 = mlen - mlen / 2;
        if (v % 3 == 0) { ascon128_state_t st; LIB(ascon128_aead_init(&st, n, k); ascon128_aead_start(&st, a, adlen); ascon128_aead_encrypt_block(&st, m, T.out, h1); ascon128_aead_encrypt_block(&st, m + h1, T.out + h1, h2); ascon128_aead_encrypt_finalize(&st, T.out + mlen);
                                               ascon128_aead_reinit(&st, n, k); ascon128_aead_start(&st, a, adlen); ascon128_aead_decrypt_block(&st, T.out, T.tmp, mlen); r = ascon128_aead_decrypt_finalize(&st, T.out + mlen); ascon128_aead_free(&st)); }
        else if (v % 3 == 1) { ascon128a_state_t st; LIB(ascon128a_aead_init(&st, n, k); ascon128a_aead_start(&st, a, adlen); ascon128a_aead_encrypt_block(&st, m, T.out, h1); ascon128a_aead_encrypt_block(&st, m + h1, T.out + h1, h2); ascon128a_aead_encrypt_finalize(&st, T.out + mlen);
                                               ascon128a_aead_reinit(&st, n, k); ascon128a_aead_start(&st, a, adlen); ascon128a_aead_decrypt_block(&st, T.out, T.tmp, mlen); r = ascon128a_aead_decrypt_finalize(&st, T.out + mlen); ascon128a_aead_free(&st)); }
        else { ascon80pq_state_t st; LIB(ascon80pq_aead_init(&st, n, k); ascon80pq_aead_start(&st, a, adlen); ascon80pq_aead_encrypt_block(&st, m, T.out, h1); ascon80pq_aead_encrypt_block(&st, m + h1, T.out + h1, h2); ascon80pq_aead_encrypt_finalize(&st, T.out + mlen);
                                               ascon80pq_aead_reinit(&st, n, k); ascon80pq_aead_start(&st, a, adlen); ascon80pq_aead_decrypt_block(&st, T.out, T.tmp, mlen); r = ascon80pq_aead_decrypt_finalize(&st, T.out + mlen); ascon80pq_aead_free(&st)); }
        clen = mlen + 16; plen = mlen; break; }
    case 7: if (v & 1) { LIB(ascon128_siv_encrypt(T.out, &clen, m, mlen, a, adlen, n, k)); TAMPER(); LIB(r = ascon128_siv_decrypt(T.tmp, &plen, T.out, clen, a, adlen, n, k)); }
            else { LIB(ascon128a_siv_encrypt(T.out, &clen, m, mlen, a, adlen, n, k)); TAMPER(); LIB(r = ascon128a_siv_decrypt(T.tmp, &plen, T.out, clen, a, adlen, n, k)); }
            break;
    case 8: LIB(ascon80pq_siv_encrypt(T.out, &clen, m, mlen, a, adlen, n, k)); TAMPER(); LIB(r = ascon80pq_siv_decrypt(T.tmp, &plen, T.out, clen, a, adlen, n, k)); break;
    case 9: LIB(ascon128_isap_aead_encrypt(T.out, &clen, m, mlen, a, adlen, n, &S.ik128)); TAMPER(); LIB(r = ascon128_isap_aead_decrypt(T.tmp, &plen, T.out, clen, a, adlen, n, &S.ik128)); break;
    case 10: LIB(ascon128a_isap_aead_encrypt(T.out, &clen, m, mlen, a, adlen, n, &S.ik128a)); TAMPER(); LIB(r = ascon128a_isap_aead_decrypt(T.tmp, &plen, T.out, clen, a, adlen, n, &S.ik128a)); break;
    case 11: LIB(ascon80pq_isap_aead_encrypt(T.out, &clen, m, mlen, a, adlen, n, &S.ik80)); TAMPER(); LIB(r = ascon80pq_isap_aead_decrypt(T.tmp, &plen, T.out, clen, a, adlen, n, &S.ik80)); break;
    case 12: if (v & 1) { LIB(ascon128_masked_aead_encrypt(T.out, &clen, m, mlen, a, adlen, n, &S.mk128)); TAMPER(); LIB(r = ascon128_masked_aead_decrypt(T.tmp, &plen, T.out, clen, a, adlen, n, &S.mk128)); }
             else { LIB(ascon128a_masked_aead_encrypt(T.out, &clen, m, mlen, a, adlen, n, &S.mk128)); TAMPER(); LIB(r = ascon128a_masked_aead_decrypt(T.tmp, &plen, T.out, clen, a, adlen, n, &S.mk128)); }
             break;
    case 13: LIB(ascon80pq_masked_aead_encrypt(T.out, &clen, m, mlen, a, adlen, n, &S.mk160)); TAMPER(); LIB(r = ascon80pq_masked_aead_decrypt(T.tmp, &plen, T.out, clen, a, adlen, n, &S.mk160)); break;
    case 14: {
        ascon_prf_state_t ps;
        LIB(ascon_prf(T.out, 24, m, mlen, k); ascon_prf_fixed(T.out + 24, 8, m, mlen, k); r = ascon_prf_short(T.out + 32, 16, m, mlen % 17, k); ascon_mac(T.out + 48, m, mlen, k); r += ascon_mac_verify(T.out + 48, m, mlen, k);
            ascon_prf_init(&ps, k); ascon_prf_absorb(&ps, m, mlen); ascon_prf_squeeze(&ps, T.out + 64, 20); ascon_prf_free(&ps));
        if (v & 1) { ascon_hmac_state_t hs; LIB(ascon_hmac(T.out + 96, k, 20, m, mlen); ascon_hmac_init(&hs, k, 20 + (v & 64)); ascon_hmac_update(&hs, m, mlen); ascon_hmac_finalize(&hs, k, 20 + (v & 64), T.out + 128); ascon_hmac_free(&hs)); }
        else { ascon_hmaca_state_t hs; LIB(ascon_hmaca(T.out + 96, k, 20, m, mlen); ascon_hmaca_init(&hs, k, 20); ascon_hmaca_update(&hs, m, mlen); ascon_hmaca_finalize(&hs, k, 20, T.out + 128); ascon_hmaca_free(&hs)); }
        clen = 160; break; }
    case 15: {
        size_t ol = (mlen & 1) ? 32 : 24;
        if (v & 1) { ascon_hkdf_state_t hk; LIB(ascon_kmac(k, 16, m, mlen, a, adlen, T.out, ol); r = ascon_hkdf(T.out + 32, 40, k, 20, a, adlen, m, mlen % 20); ascon_kdf(T.out + 72, 16, k, 16, a, adlen % 9);
                                               ascon_hkdf_extract(&hk, k, 20, a, adlen); r += ascon_hkdf_expand(&hk, m, mlen % 9, T.out + 128, 40); ascon_hkdf_free(&hk)); }
        else { ascon_hkdfa_state_t hk; LIB(ascon_kmaca(k, 16, m, mlen, a, adlen, T.out, ol); r = ascon_hkdfa(T.out + 32, 40, k, 20, a, adlen, m, mlen % 20); ascon_kdfa(T.out + 72, 16, k, 16, a, adlen % 9);
                                           ascon_hkdfa_extract(&hk, k, 20, a, adlen); r += ascon_hkdfa_expand(&hk, m, mlen % 9, T.out + 128, 40); ascon_hkdfa_free(&hk)); }
        LIB(ascon_pbkdf2(T.out + 88, 24, m, mlen % 13, a, adlen % 11, 2); ascon_pbkdf2_hmac(T.out + 112, 8, m, mlen % 13, a, adlen % 11, 1));
        clen = 168; break; }
    case 16: // the global one-shot generator and the state-less forms of the object interface (the code accepts a null state)
        LIB(r = ascon_random(T.out, 32 + mlen % 32); ascon_random_fetch(nullptr, T.out + 64, 24 + mlen % 9); ascon_random_feed(nullptr, m, mlen % 8);
            r += ascon_random_reseed(nullptr); r += ascon_random_init(nullptr); ascon_random_free(nullptr));
        clen = 100; break;
    case 17: LIB(ascon_random_init(&T.prng); ascon_random_feed(&T.prng, m, mlen % 24); ascon_random_fetch(&T.prng, T.out, 48); ascon_random_free(&T.prng)); clen = 48; break;
    // C++ wrappers (built with clang++ and the same callbacks); raw-pointer overloads only, so that the
    // library never allocates and address reuse through malloc cannot fake a race
    case 18: { // plain and SIV classes, all three parameter sets
        ++t_in_lib;
        switch (v % 6) {
        case 0: cpp_pair<ascon::aead128>(T, k, 16, n, m, mlen, a, adlen, tamper, sd, clen, plen, r); break;
        case 1: cpp_pair<ascon::aead128a>(T, k, 16, n, m, mlen, a, adlen, tamper, sd, clen, plen, r); break;
        case 2: cpp_pair<ascon::aead80pq>(T, k, 20, n, m, mlen, a, adlen, tamper, sd, clen, plen, r); break;
        case 3: cpp_pair<ascon::siv128>(T, k, 16, n, m, mlen, a, adlen, tamper, sd, clen, plen, r); break;
        case 4: cpp_pair<ascon::siv128a>(T, k, 16, n, m, mlen, a, adlen, tamper, sd, clen, plen, r); break;
        default: cpp_pair<ascon::siv80pq>(T, k, 20, n, m, mlen, a, adlen, tamper, sd, clen, plen, r); break;
        }
        --t_in_lib;
        break; }
    case 19: { // ISAP classes keyed from the shared saved key (128a) or raw keys
        ++t_in_lib;
        switch (v % 3) {
        case 0: { ascon::isap128a e(S.saved128a, ASCON_ISAP_SAVED_KEY_SIZE); e.set_nonce(n, 16); r = e.encrypt(T.out, m, mlen, a, adlen); clen = (size_t)r;
                  if (tamper && clen) T.out[(sd >> 8) % clen] ^= 1;
                  ascon::isap128a d; d.set_key(S.saved128a, ASCON_ISAP_SAVED_KEY_SIZE); d.set_nonce(n, 16); r = d.decrypt(T.tmp, T.out, clen, a, adlen); plen = r < 0 ? 0 : (size_t)r;
                  d.save_key(T.tmp + 512); break; }
        case 1: cpp_pair<ascon::isap128>(T, k, 16, n, m, mlen, a, adlen, tamper, sd, clen, plen, r); break;
        default: cpp_pair<ascon::isap80pq>(T, k, 20, n, m, mlen, a, adlen, tamper, sd, clen, plen, r); break;
        }
        --t_in_lib;
        break; }
    case 20: {
        ++t_in_lib;
        { ascon::hash h; h.update(m, mlen); h.finalize(T.out); ascon::xofa x; x.absorb(a, adlen); x.absorb(m, mlen); x.squeeze(T.out + 32, 24);
          ascon::hasha h2; h2.update(m, mlen / 2); ascon::hasha h3(h2); h3.update(m + mlen / 2, mlen - mlen / 2); h3.finalize(T.out + 56);
          ascon::xof y("thr", a, adlen % 7); y.absorb(m, mlen); y.pad(); y.squeeze(T.out + 88, 16); y.reset();
          ascon::xof_with_output_length<32> z; z.absorb(m, mlen); z.squeeze(T.out + 104, 32); ascon::xofa_with_output_length<17> w; w = w; w.absorb(m, mlen); w.squeeze(T.out + 136, 17);
          ascon::hash::digest(T.out + 160, m, mlen); ascon::hasha::digest(T.out + 192, m, mlen); }
        --t_in_lib;
        clen = 224;
        break; }
    case 22: { // masked key toolkit on a private key, and read-only extraction from the shared masked keys
        ascon_masked_key_128_t k1;
        ascon_masked_key_160_t k2;
        LIB(ascon_masked_key_128_init(&k1, k); ascon_masked_key_128_randomize(&k1); ascon_masked_key_128_extract(&k1, T.out); ascon_masked_key_128_free(&k1);
            ascon_masked_key_160_init(&k2, k); ascon_masked_key_160_randomize(&k2); ascon_masked_key_160_extract(&k2, T.out + 16); ascon_masked_key_160_free(&k2);
            ascon_masked_key_128_extract(&S.mk128, T.out + 40); ascon_masked_key_160_extract(&S.mk160, T.out + 56));
        clen = 76; break; }
    case 23: { // copies taken from shared constant states, re-initialisation variants, the hex codec, the bare permutation state
        ascon_xof_state_t x;
        ascon_hasha_state_t h;
        ascon_state_t st;
        LIB(ascon_xof_copy(&x, &S.xsrc); ascon_xof_absorb(&x, m, mlen); ascon_xof_squeeze(&x, T.out, 24);
            ascon_xof_reinit_custom(&x, "thr2", a, adlen % 9, 0); ascon_xof_absorb(&x, m, mlen); ascon_xof_squeeze(&x, T.out + 24, 16);
            ascon_xof_reinit_fixed(&x, 24 + (v & 7)); ascon_xof_squeeze(&x, T.out + 40, 8); ascon_xof_reinit(&x); ascon_xof_squeeze(&x, T.out + 48, 8); ascon_xof_free(&x);
            ascon_hasha_copy(&h, &S.hsrc); ascon_hasha_update(&h, m, mlen); ascon_hasha_finalize(&h, T.out + 56); ascon_hasha_free(&h);
            r = ascon_bytes_to_hex((char *)T.out + 96, 2 * 40 + 1, m, 40, (int)(v & 1)); r += ascon_bytes_from_hex(T.out + 200, 40, (const char *)T.out + 96, 80);
            ascon_init(&st); ascon_add_bytes(&st, m, (unsigned)(v % 9), 24); ascon_permute(&st, (uint8_t)(v % 12)); ascon_overwrite_with_zeroes(&st, 8, 8);
            ascon_extract_and_overwrite_bytes(&st, m + 40, T.out + 240, 3, 21); ascon_extract_bytes(&st, T.out + 264, 0, 40); ascon_free(&st));
        clen = 304; break; }
    case 24: { // a private generator through its whole interface, with private non-volatile storage
        ThrStore fs;
        memset(&fs.st, 0, sizeof fs.st);
        fs.st.size = 64; fs.st.page_size = 1; fs.st.erase_size = 0; fs.st.read = thr_store_read; fs.st.write = thr_store_write;
        fs.mem = T.tmp + 640;
        LIB(ascon_random_init(&T.prng); ascon_random_fetch(&T.prng, T.out, 16); r = ascon_random_reseed(&T.prng); ascon_random_feed(&T.prng, m, mlen % 40);
            r += ascon_random_save_seed(&T.prng, &fs.st); r += ascon_random_load_seed(&T.prng, &fs.st); ascon_random_fetch(&T.prng, T.out + 16, 40); ascon_random_free(&T.prng));
        clen = 56; break; }
    case 25: { // outputs of different threads lie next to each other in memory: a function may write its own bytes only
        uint8_t *mine = S.slices + 13 * (size_t)(T.id % 16);
        LIB(r = ascon128a_isap_aead_decrypt(mine, &plen, S.slice_ct, sizeof S.slice_ct, nullptr, 0, S.nonce, &S.ik128a));
        memcpy(T.out, mine, 13);
        clen = 13; plen = 0; break; }
    case 26: { // generators of different threads save and load through ONE shared constant storage descriptor; a third
               // of the operations meets a failing first write (what the driver is asked to do is part of the result)
        t_store_mem = T.tmp + 640; t_store_fail = (sd >> 12) % 3 == 0 ? 1 : 0; t_store_log = 0;
        memset(T.tmp + 640, 0x3c, 64);
        LIB(ascon_random_init(&T.prng); r = ascon_random_save_seed(&T.prng, &S.store); r += 3 * ascon_random_save_seed(&T.prng, &S.store);
            r += 9 * ascon_random_load_seed(&T.prng, &S.store); ascon_random_fetch(&T.prng, T.out, 32); ascon_random_free(&T.prng));
        memcpy(T.out + 32, &t_store_log, 8);
        clen = 40; break; }
    case 27: { // inputs of different threads lie next to each other in memory (each thread fills its own 13-byte slice and
               // has it encrypted by a masked AEAD under the shared masked key): a function may READ its own bytes only
        uint8_t *mine = S.slices + 13 * (size_t)(T.id % 16);
        LIB(memcpy(mine, m, 13); ascon128_masked_aead_encrypt(T.out, &clen, mine, 13, mine, 5, n, &S.mk128);
            ascon80pq_masked_aead_encrypt(T.out + 32, &plen, mine, 11, nullptr, 0, n, &S.mk160));
        clen = 32 + 27; plen = 0; break; }
    default: { // masked classes
        ++t_in_lib;
        switch (v % 3) {
        case 0: cpp_pair<ascon::aead128_masked>(T, k, 16, n, m, mlen, a, adlen, tamper, sd, clen, plen, r); break;
        case 1: cpp_pair<ascon::aead128a_masked>(T, k, 16, n, m, mlen, a, adlen, tamper, sd, clen, plen, r); break;
        default: cpp_pair<ascon::aead80pq_masked>(T, k, 20, n, m, mlen, a, adlen, tamper, sd, clen, plen, r); break;
        }
        --t_in_lib;
        break; }
    }
    if (rng_dead) simrng_arm(&T.rng, 0, 0);
    uint64_t h = fnv(T.out, std::min<size_t>(clen, sizeof T.out));
    h = fnv(&r, sizeof r, h);
    h = fnv(T.tmp, std::min<size_t>(plen, sizeof T.tmp), h);
    return h;
}

static void find_stack()
{
    pthread_attr_t at;
    void *lo;
    size_t sz;
    pthread_getattr_np(pthread_self(), &at);
    pthread_attr_getstack(&at, &lo, &sz);
    pthread_attr_destroy(&at);
    t_stack_lo = (uintptr_t)lo;
    t_stack_hi = (uintptr_t)lo + sz;
}

static void *worker(void *arg)
{
    ThreadCtx *T = (ThreadCtx *)arg;
    t_id = T->id;
    find_stack();
    simrng_use(&T->rng);
    sem_wait(&g->sem[t_id]);      // wait for the baton
    for (const Op &op : T->ops) {
        if (g->cap_hit) break;
        T->results.push_back(run_op(*T, op));
        yield_point(2);
    }
    g->done[t_id] = true;
    int to = pick_other(t_id);
    simrng_use(nullptr);
    pass_baton(to);               // to == -1 wakes the main thread
    return nullptr;
}

struct ThreadsWorld : World {
    const char *name() const override { return "threads"; }

    void gen(Rng &r, Plan &pl, bool thorough) override
    {
        int nt = 2 + (int)r.below(thorough ? 7 : 5);
        int mode = (int)r.below(3) == 0 ? 1 : 0;
        pl.add("knob.threads", {nt});
        pl.add("knob.sched", {mode, r.pickv({10, 30, 100, 300, 1000, 5000}), (int64_t)(r.next() >> 1), 1 + (int64_t)r.below(12)});
        int focus = r.chance(1, 3) ? (int)r.below(NOPK) : -1; // some runs hammer one primitive from all threads
        for (int t = 0; t < nt; ++t) {
            int nops = 1 + (int)r.below(thorough ? 6 : 4);
            for (int i = 0; i < nops; ++i) {
                int kind = focus >= 0 && r.chance(2, 3) ? focus : (int)r.below(NOPK);
                pl.add("op", {t, kind, (int64_t)r.pickv({0, 1, 7, 8, 9, 16, 33, 100}), (int64_t)r.pickv({0, 1, 8, 17}), (int64_t)(r.next() >> 1), (int64_t)r.below(32)});
            }
        }
    }

    void exec(const Plan &plan, Run &run) override
    {
        int nt = (int)std::min<int64_t>(MAXT, std::max<int64_t>(1, plan.knob("threads", 2)));
        std::unique_ptr<Sim> sim(new Sim());
        if (!g_shadow) g_shadow = (ShadowEnt *)calloc(SHADOW_SIZE, sizeof(ShadowEnt));
        g_shadow_gen++;
        g_shadow_used = 0;
        g = sim.get();
        g->nthreads = nt;
        g->data_lo = (uintptr_t)&__data_start;
        g->data_hi = (uintptr_t)&_end;
        Bytes asm_before;
        if (&__start_asmbss && &__stop_asmbss > &__start_asmbss) asm_before.insert(asm_before.end(), (uint8_t *)&__start_asmbss, (uint8_t *)&__stop_asmbss);
        if (&__start_asmdata && &__stop_asmdata > &__start_asmdata) asm_before.insert(asm_before.end(), (uint8_t *)&__start_asmdata, (uint8_t *)&__stop_asmdata);
        for (const Op &o : plan.ops)
            if (o.name == "knob.sched") {
                g->mode = (int)(o.u(0) % 2);
                g->rate = std::max<uint64_t>(2, o.u(1) % 100000);
                g->sched = Rng(o.u(2));
                uint64_t d = 1 + o.u(3) % 16;
                Rng cp(o.u(2) ^ 0x9999);
                for (uint64_t i = 0; i < d; ++i) g->change_points.push_back(1 + cp.below(200000));
                std::sort(g->change_points.begin(), g->change_points.end());
            }
        // shared read-only objects, created before any worker exists
        Shared *sh = (Shared *)aalloc(64, (sizeof(Shared) + 63) & ~(size_t)63);
        simrng_t mainrng;
        simrng_reset(&mainrng, plan.digest(), SIMRNG_RANDOM);
        simrng_use(&mainrng);
        fill_bytes(sh->key, 20, 0x11);
        fill_bytes(sh->nonce, 16, 0x12);
        fill_bytes(sh->ad, 64, 0x13);
        fill_bytes(sh->msg, 256, 0x14);
        ascon128_isap_aead_init(&sh->ik128, sh->key);
        ascon128a_isap_aead_init(&sh->ik128a, sh->key);
        ascon80pq_isap_aead_init(&sh->ik80, sh->key);
        ascon128a_isap_aead_save_key(&sh->ik128a, sh->saved128a);
        ascon_masked_key_128_init(&sh->mk128, sh->key);
        ascon_masked_key_160_init(&sh->mk160, sh->key);
        { size_t cl = 0; ascon128a_isap_aead_encrypt(sh->slice_ct, &cl, sh->msg, 13, nullptr, 0, sh->nonce, &sh->ik128a); memset(sh->slices, 0, sizeof sh->slices); }
        ascon_xof_init(&sh->xsrc);
        ascon_xof_absorb(&sh->xsrc, sh->msg, 13);
        ascon_hasha_init(&sh->hsrc);
        ascon_hasha_update(&sh->hsrc, sh->msg, 21);
        memset(&sh->store, 0, sizeof sh->store);
        sh->store.size = 64; sh->store.page_size = 1; sh->store.erase_size = 0; sh->store.read = shr_store_read; sh->store.write = shr_store_write;
        Bytes shared_before((uint8_t *)sh, (uint8_t *)sh + sizeof(Shared)); // every shared object is a constant from here on
        std::vector<ThreadCtx *> T;
        for (int t = 0; t < nt; ++t) {
            ThreadCtx *c = (ThreadCtx *)aalloc(64, (sizeof(ThreadCtx) + 63) & ~(size_t)63);
            new (c) ThreadCtx();
            c->id = t;
            c->sh = sh;
            T.push_back(c);
        }
        for (const Op &o : plan.ops)
            if (o.name == "op") { Op q; q.name = "op"; q.a.assign(o.a.begin() + 1, o.a.end()); T[(size_t)(o.u(0) % (uint64_t)nt)]->ops.push_back(q); run.ops_done++; run.task((int64_t)(o.u(0) % (uint64_t)nt)); }
        // 1. sequential reference: each thread's plan alone, one after the other
        std::vector<std::vector<uint64_t>> seq(nt);
        g->seq_pass = true;
        for (int t = 0; t < nt; ++t) {
            simrng_reset(&T[t]->rng, plan.digest() ^ (uint64_t)(t + 1), SIMRNG_RANDOM);
            simrng_use(&T[t]->rng);
            for (const Op &op : T[t]->ops) seq[t].push_back(run_op(*T[t], op));
            T[t]->results.clear();
        }
        g->seq_pass = false;
        simrng_use(nullptr);
        // 2. concurrent execution under the seeded scheduler
        for (int t = 0; t <= MAXT; ++t) sem_init(&g->sem[t], 0, 0);
        for (int t = 0; t < nt; ++t) { g->done[t] = false; simrng_reset(&T[t]->rng, plan.digest() ^ (uint64_t)(t + 1), SIMRNG_RANDOM); }
        pthread_t th[MAXT];
        pthread_attr_t at;
        pthread_attr_init(&at);
        pthread_attr_setstacksize(&at, 1 << 20);
        for (int t = 0; t < nt; ++t) pthread_create(&th[t], &at, worker, T[t]);
        g->concurrent = true;
        int first = (int)g->sched.below((uint64_t)nt);
        g->running = first;
        sem_post(&g->sem[first]);
        sem_wait(&g->sem[MAXT]);       // all workers done
        g->concurrent = false;
        for (int t = 0; t < nt; ++t) pthread_join(th[t], nullptr);
        pthread_attr_destroy(&at);
        // verdicts
        if (g->cap_hit) run.violation("C16", "liveness", "step_cap", "scheduler step cap exceeded");
        if (g->races) run.violation("C16", "data_race", g->race_site, fmt("%llu conflicting access pairs; first: %s", (unsigned long long)g->races, g->race_detail.c_str()));
        {
            Bytes asm_after;
            if (&__start_asmbss && &__stop_asmbss > &__start_asmbss) asm_after.insert(asm_after.end(), (uint8_t *)&__start_asmbss, (uint8_t *)&__stop_asmbss);
            if (&__start_asmdata && &__stop_asmdata > &__start_asmdata) asm_after.insert(asm_after.end(), (uint8_t *)&__start_asmdata, (uint8_t *)&__stop_asmdata);
            if (!asm_after.empty()) run.probe("asm.static_storage_watched");
            if (asm_after != asm_before)
                run.violation("C16", "hidden_global_state", "assembly_object_static_storage",
                              fmt("%zu bytes of writable static storage that belong to assembly objects changed during the run (the detector cannot see the stores themselves)", asm_after.size()));
        }
        if (g->glob_writes) run.violation("C16", "hidden_global_state", g->glob_site, fmt("%llu stores to the executable's writable static storage; first: %s", (unsigned long long)g->glob_writes, g->glob_detail.c_str()));
        for (int t = 0; t < nt; ++t) {
            for (size_t i = 0; i < seq[t].size(); ++i) {
                uint64_t got = i < T[t]->results.size() ? T[t]->results[i] : 0;
                run.fold_u64(got);
                if (got != seq[t][i]) {
                    int kind = (int)(T[t]->ops[i].u(0) % NOPK);
                    run.violation("C16", "result_differs_from_sequential", opk_name[kind], fmt("thread %d op %zu (%s): result under this interleaving differs from the sequential run", t, i, opk_name[kind]));
                }
            }
        }
        {
            // the shared objects were handed to the library as constants only: apart from the output slices they must
            // hold exactly the bytes they held before the first operation
            memcpy(((Shared *)shared_before.data())->slices, sh->slices, sizeof sh->slices);
            if (memcmp(shared_before.data(), sh, sizeof(Shared)) != 0) {
                size_t d = 0;
                while (((uint8_t *)sh)[d] == shared_before[d]) ++d;
                const char *what = d >= offsetof(Shared, store) ? "storage_descriptor" : d >= offsetof(Shared, xsrc) ? "xof_or_hash_source_state" : d >= offsetof(Shared, key) ? "constant_inputs" :
                                   d >= offsetof(Shared, mk128) ? "masked_key" : "isap_precomputed_key";
                run.violation("C16", "shared_constant_object_modified", what, fmt("byte %zu of the shared read-only objects changed during the run", d));
            }
        }
        run.fault("sched.preempt.load", g->preempt_site[0]);
        run.fault("sched.preempt.store", g->preempt_site[1]);
        run.fault("sched.preempt.func", g->preempt_site[2]);
        run.probe("sched.switches", g->switches);
        run.probe("detector.accesses", g->accesses);
        if (g->shadow_full) run.probe("detector.shadow_full", g->shadow_full);
        run.probe("sched.steps", g->steps);
        run.state(g->switch_hash);
        run.fold_u64(g->switch_hash);
        // cleanup
        ascon128_isap_aead_free(&sh->ik128);
        ascon128a_isap_aead_free(&sh->ik128a);
        ascon80pq_isap_aead_free(&sh->ik80);
        ascon_masked_key_128_free(&sh->mk128);
        ascon_masked_key_160_free(&sh->mk160);
        ascon_xof_free(&sh->xsrc);
        ascon_hasha_free(&sh->hsrc);
        for (auto *c : T) { c->~ThreadCtx(); free(c); }
        free(sh);
        for (int t = 0; t <= MAXT; ++t) sem_destroy(&g->sem[t]);
        g = nullptr;
    }
};

int main(int argc, char **argv)
{
    ThreadsWorld w;
    return worker_main(argc, argv, w);
}
