// World `masked`: the masked toolkit under adversarial random tapes (C10; feeds
// C09, C12).  The five TRNG-mixer functions are replaced at link time by a tape
// reader, so all-zero, all-one, constant, periodic, counter, random and
// "adversarial" (= the secret being masked) values reach the masked code, the
// assembly backends included.  Values are observed only through the public
// store / extract / copy_to_x1 functions.
#define ASIM_MAIN 1
#include "core/asim.h"
#include "seams/tape_trng.h"
extern "C" {
#include "masking/ascon-masked-state.h"
}
#include <ascon/aead.h>
#include <ascon/aead-masked.h>
#include <ascon/masking.h>

using namespace asim;

#define MAXS ASCON_MASKED_MAX_SHARES
#define KEYS ASCON_MASKED_KEY_SHARES

static const char *tape_name[TAPE_NKINDS] = {"random", "zero", "ones", "const", "period2", "period3", "counter", "adversarial"};

static uint64_t be64(const uint8_t *b)
{
    uint64_t v = 0;
    for (int i = 0; i < 8; ++i) v = (v << 8) | b[i];
    return v;
}
static void put64(uint8_t *b, uint64_t v)
{
    for (int i = 7; i >= 0; --i) { b[i] = (uint8_t)v; v >>= 8; }
}

// dispatch on share count
#define XN(n, fn, ...)                                                    \
    do {                                                                  \
        if ((n) == 2) ascon_masked_word_x2_##fn(__VA_ARGS__);             \
        XN3(n, fn, __VA_ARGS__)                                           \
        XN4(n, fn, __VA_ARGS__)                                           \
    } while (0)
#if MAXS >= 3
#define XN3(n, fn, ...) else if ((n) == 3) ascon_masked_word_x3_##fn(__VA_ARGS__);
#else
#define XN3(n, fn, ...)
#endif
#if MAXS >= 4
#define XN4(n, fn, ...) else if ((n) == 4) ascon_masked_word_x4_##fn(__VA_ARGS__);
#else
#define XN4(n, fn, ...)
#endif

struct MaskedWorld : World {
    const char *name() const override { return "masked"; }
    enum { NW = 4, NST = 2 };

    void gen(Rng &r, Plan &pl, bool thorough) override
    {
        int tape = r.chance(1, 3) ? TAPE_RANDOM : (int)r.below(TAPE_NKINDS);
        pl.add("knob.tape", {tape, (int64_t)(r.next() >> 1)});
        pl.add("knob.page", {(int64_t)(r.chance(1, 4) ? 1 : 0)});
        pl.add("knob.unhealthy", {(int64_t)(r.chance(1, 8) ? 1 : 0)}); // the random source reports that it could not be seeded (its values still flow)
        int nops = thorough ? 24 + (int)r.below(40) : 12 + (int)r.below(36);
        for (int i = 0; i < nops; ++i) {
            unsigned c = (unsigned)r.below(100);
            int n = 2 + (int)r.below(MAXS - 1);
            int w = (int)r.below(NW), v = (int)r.below(NW);
            int64_t sd = (int64_t)(r.next() >> 1);
            if (c < 8) pl.add("w.load", {w, n, sd});
            else if (c < 14) pl.add("w.load_partial", {w, n, 1 + (int64_t)r.below(7), sd});
            else if (c < 19) pl.add("w.load_32", {w, n, sd});
            else if (c < 22) pl.add("w.zero", {w, n});
            else if (c < 30) pl.add("w.store", {w});
            else if (c < 36) pl.add("w.store_partial", {w, 1 + (int64_t)r.below(7)});
            else if (c < 44) pl.add("w.randomize", {w, v});
            else if (c < 50) pl.add("w.xor", {w, v});
            else if (c < 56) pl.add("w.replace", {w, v, (int64_t)r.below(8)});
            else if (c < 64) pl.add("w.convert", {w, v, n});
            else if (c < 68) pl.add("w.pad", {w, (int64_t)r.below(8)});
            else if (c < 71) pl.add("w.separator", {w});
            else if (c < 76) pl.add("s.from_x1", {(int64_t)r.below(NST), n, sd});
            else if (c < 83) pl.add("s.permute", {(int64_t)r.below(NST), (int64_t)r.below(12), (int64_t)r.below(2), sd});
            else if (c < 86) pl.add("s.randomize", {(int64_t)r.below(NST)});
            else if (c < 89) pl.add("s.convert", {(int64_t)r.below(NST), (int64_t)r.below(NST), n});
            else if (c < 91) pl.add("s.to_x1", {(int64_t)r.below(NST)});
            else if (c < 94) pl.add("k.key", {(int64_t)r.below(2), (int64_t)r.below(3), sd});
            else pl.add("a.aead", {(int64_t)r.below(3), (int64_t)(r.chance(1, 8) ? r.pickv({511, 512, 520, 1023, 1024, 1040, 2100}) : r.pickv({0, 1, 7, 8, 9, 15, 16, 17, 33, 100})), (int64_t)(r.chance(1, 10) ? r.pickv({512, 519, 1024, 1031}) : r.pickv({0, 1, 7, 8, 9, 16, 17, 40})), (int64_t)r.below(3), sd, (int64_t)r.below(6)});
        }
    }

    struct Ctx {
        Run *run;
        ascon_trng_state_t trng;
        // every masked word and state lives in its own exact-size allocation (poisoned bytes around it; against
        // PROT_NONE pages in page mode), so that a function touching one share too many cannot land in a neighbour
        GuardBuf wb[NW], sb[NST];
        ascon_masked_word_t *wp[NW];
        bool page;
        int wn[NW];          // share count of the representation held (0 = nothing yet)
        uint64_t wv[NW];     // model value
        ascon_masked_state_t *sp[NST];
        int sn[NST];
        uint8_t sv[NST][40];
        uint64_t preserve[NST][4];
        int tape;
    };

    static uint64_t word_value(Ctx &c, int i)
    {
        uint8_t b[8];
        int n = c.wn[i];
        XN(n, store, b, c.wp[i]);
        return be64(b);
    }

    static void check_word(Ctx &c, int i, const char *after)
    {
        if (!c.wn[i]) return;
        uint64_t got = word_value(c, i);
        if (got != c.wv[i])
            c.run->violation("C10", "masked_word_value", fmt("x%d.%s", c.wn[i], after),
                             fmt("tape=%s shares=%d after %s: store gives %016llx, unmasked computation gives %016llx", tape_name[c.tape], c.wn[i], after,
                                 (unsigned long long)got, (unsigned long long)c.wv[i]));
        c.run->fold_u64(got);
    }

    static void ensure_word(Ctx &c, int i, int n)
    {
        if (c.wn[i]) return;
        XN(n, zero, c.wp[i], &c.trng);
        c.wn[i] = n;
        c.wv[i] = 0;
    }

    // "changing every one of its shares": compared on the raw 8-byte share slots that belong to the share count
    static void check_shares_changed(Ctx &c, const uint8_t *before, const uint8_t *after, int shares, const std::string &site)
    {
        // judged on the random tape only; words that happen to repeat or be zero excuse an unchanged share,
        // drawing nothing at all does not (then no share can have changed)
        if (c.tape != TAPE_RANDOM || (g_tape.ndrawn > 0 && !tape_drawn_distinct_nonzero())) return;
        c.run->probe(g_tape.ndrawn ? "randomize.shares_checked" : "randomize.drew_nothing");
        for (int s = 0; s < shares; ++s)
            if (memcmp(before + 8 * s, after + 8 * s, 8) == 0)
                c.run->violation("C10", "randomize_changes_every_share", site,
                                 fmt("share %d of %d unchanged by re-randomisation on the random tape (%u random words drawn, all distinct and non-zero)", s, shares, g_tape.ndrawn));
    }

    void exec(const Plan &plan, Run &run) override
    {
        Ctx *cp = new Ctx();
        Ctx &c = *cp;
        memset(c.wn, 0, sizeof c.wn);
        memset(c.wv, 0, sizeof c.wv);
        memset(c.sn, 0, sizeof c.sn);
        memset(c.sv, 0, sizeof c.sv);
        memset(c.preserve, 0, sizeof c.preserve);
        memset(&c.trng, 0, sizeof c.trng);
        c.run = &run;
        c.page = plan.knob("page", 0) != 0;
        for (int i = 0; i < NW; ++i) { c.wb[i].alloc(sizeof(ascon_masked_word_t), 0, c.page, 0); c.wp[i] = (ascon_masked_word_t *)c.wb[i].p; }
        for (int i = 0; i < NST; ++i) { c.sb[i].alloc(sizeof(ascon_masked_state_t), 0, c.page, 0); c.sp[i] = (ascon_masked_state_t *)c.sb[i].p; }
        c.tape = (int)(plan.knob("tape", 0) % TAPE_NKINDS);
        uint64_t tseed = 0;
        for (const Op &o : plan.ops) if (o.name == "knob.tape") tseed = o.u(1);
        tape_reset(c.tape, tseed);
        g_tape.unhealthy = plan.knob("unhealthy", 0) != 0;
        if (g_tape.unhealthy) run.fault("rng.reports_unseeded");
        run.fault(std::string("rng.tape_") + tape_name[c.tape]);
        ascon_trng_init(&c.trng);
        for (int s = 0; s < NST; ++s) ascon_masked_state_init(c.sp[s]);
        int idx = 0;
        for (const Op &op : plan.ops) {
            run.cur_op = idx++;
            if (op.name.compare(0, 5, "knob.") == 0) continue;
            run.ops_done++;
            run.task(op.name[0] == 'w' ? (int64_t)(op.u(0) % NW) : op.name[0] == 's' ? 10 + (int64_t)(op.u(0) % NST) : 20);
            tape_mark();
            step(c, op);
            for (int i = 0; i < NW; ++i) if (!c.wb[i].intact()) { run.violation("C12", "canary", "masked_word_neighbourhood", fmt("bytes next to masked word %d were written by op %s", i, op.name.c_str())); c.wb[i].alloc(sizeof(ascon_masked_word_t), 0, c.page, 0); c.wp[i] = (ascon_masked_word_t *)c.wb[i].p; c.wn[i] = 0; }
            for (int i = 0; i < NST; ++i) if (!c.sb[i].intact()) { run.violation("C12", "canary", "masked_state_neighbourhood", fmt("bytes next to masked state %d were written by op %s", i, op.name.c_str())); }
        }
        for (int s = 0; s < NST; ++s) ascon_masked_state_free(c.sp[s]);
        ascon_trng_free(&c.trng);
        delete cp;
    }

    void step(Ctx &c, const Op &op)
    {
        Run &run = *c.run;
        const std::string &nm = op.name;
        if (nm[0] == 'w') {
            int i = (int)(op.u(0) % NW);
            if (nm == "w.load" || nm == "w.load_partial" || nm == "w.load_32" || nm == "w.zero") {
                int n = 2 + (int)(op.u(1) % (MAXS - 1));
                uint8_t d[8];
                fill_bytes(d, 8, nm == "w.zero" ? 0 : op.u(nm == "w.load_partial" ? 3 : 2));
                GuardBuf g(8, (unsigned)i, c.page);
                memcpy(g.p, d, 8);
                if (nm == "w.load") { g_tape.adv = be64(d); XN(n, load, c.wp[i], g.p, &c.trng); c.wv[i] = be64(d); }
                else if (nm == "w.load_partial") {
                    unsigned sz = 1 + (unsigned)((op.u(2) + 6) % 7);
                    GuardBuf p(sz, 1, c.page);
                    memcpy(p.p, d, sz);
                    uint64_t v = 0;
                    for (unsigned k = 0; k < sz; ++k) v |= (uint64_t)d[k] << (56 - 8 * k);
                    g_tape.adv = v;
                    XN(n, load_partial, c.wp[i], p.p, sz, &c.trng);
                    c.wv[i] = v;
                } else if (nm == "w.load_32") { g_tape.adv = be64(d); XN(n, load_32, c.wp[i], g.p, g.p + 4, &c.trng); c.wv[i] = be64(d); }
                else { g_tape.adv = 0; XN(n, zero, c.wp[i], &c.trng); c.wv[i] = 0; }
                c.wn[i] = n;
                run.state(fmt("%s/%d", nm.c_str(), n));
                check_word(c, i, nm.c_str() + 2);
                return;
            }
            if (nm == "w.store") { check_word(c, i, "store"); return; }
            if (nm == "w.store_partial") {
                if (!c.wn[i]) return;
                unsigned sz = 1 + (unsigned)((op.u(1) + 6) % 7);
                GuardBuf g(sz, 2, c.page);
                int n = c.wn[i];
                XN(n, store_partial, g.p, sz, c.wp[i]);
                if (!g.intact()) run.violation("C12", "canary", fmt("x%d.store_partial", n), "wrote beyond the requested size");
                uint8_t want[8];
                put64(want, c.wv[i]);
                if (memcmp(g.p, want, sz) != 0)
                    run.violation("C10", "masked_word_value", fmt("x%d.store_partial", n), fmt("tape=%s size=%u", tape_name[c.tape], sz));
                run.state(fmt("store_partial/%d/%u", n, sz));
                return;
            }
            int j = (int)(op.u(1) % NW);
            if (nm == "w.randomize") {
                if (!c.wn[j]) return;
                int n = c.wn[j];
                uint8_t before[MAXS * 8], after[MAXS * 8];
                memcpy(before, c.wp[j], sizeof before);
                g_tape.adv = c.wv[j];
                XN(n, randomize, c.wp[i], c.wp[j], &c.trng);
                c.wn[i] = n;
                c.wv[i] = c.wv[j];
                memcpy(after, c.wp[i], sizeof after);
                check_word(c, i, "randomize");
                check_shares_changed(c, before, after, n, fmt("word_x%d_randomize", n));
                run.state(fmt("randomize/%d/%d", n, (int)(i == j)));
                return;
            }
            if (nm == "w.xor") {
                if (!c.wn[j]) return;
                int n = c.wn[j];
                if (c.wn[i] != n) { ensure_word(c, i, n); if (c.wn[i] != n) return; }
                XN(n, xor, c.wp[i], c.wp[j]);
                c.wv[i] ^= c.wv[j];
                check_word(c, i, "xor");
                run.state(fmt("xor/%d/%d", n, (int)(i == j)));
                return;
            }
            if (nm == "w.replace") {
                if (!c.wn[j] || c.wn[i] != c.wn[j]) return;
                int n = c.wn[j];
                unsigned sz = (unsigned)(op.u(2) % 8);
                XN(n, replace, c.wp[i], c.wp[j], sz);
                uint64_t m1 = sz ? (~0ULL) >> (sz * 8) : ~0ULL;
                c.wv[i] = (c.wv[i] & m1) | (c.wv[j] & ~m1);
                check_word(c, i, "replace");
                run.state(fmt("replace/%d/%u", n, sz));
                return;
            }
            if (nm == "w.convert") {
                if (!c.wn[j]) return;
                int from = c.wn[j], to = 2 + (int)(op.u(2) % (MAXS - 1));
                g_tape.adv = c.wv[j];
                if (from == to) { XN(to, randomize, c.wp[i], c.wp[j], &c.trng); }
#if MAXS >= 3
                else if (to == 2 && from == 3) ascon_masked_word_x2_from_x3(c.wp[i], c.wp[j], &c.trng);
                else if (to == 3 && from == 2) ascon_masked_word_x3_from_x2(c.wp[i], c.wp[j], &c.trng);
#endif
#if MAXS >= 4
                else if (to == 2 && from == 4) ascon_masked_word_x2_from_x4(c.wp[i], c.wp[j], &c.trng);
                else if (to == 3 && from == 4) ascon_masked_word_x3_from_x4(c.wp[i], c.wp[j], &c.trng);
                else if (to == 4 && from == 2) ascon_masked_word_x4_from_x2(c.wp[i], c.wp[j], &c.trng);
                else if (to == 4 && from == 3) ascon_masked_word_x4_from_x3(c.wp[i], c.wp[j], &c.trng);
#endif
                else return;
                c.wv[i] = c.wv[j];
                c.wn[i] = to;
                check_word(c, i, fmt("from_x%d", from).c_str());
                run.state(fmt("convert/%d/%d/%d", from, to, (int)(i == j)));
                return;
            }
            if (nm == "w.pad") {
                if (!c.wn[i]) return;
                unsigned off = (unsigned)(op.u(1) % 8);
                ascon_masked_word_pad(c.wp[i], off);
                c.wv[i] ^= 0x8000000000000000ULL >> (off * 8);
                check_word(c, i, "pad");
                return;
            }
            if (nm == "w.separator") {
                if (!c.wn[i]) return;
                ascon_masked_word_separator(c.wp[i]);
                c.wv[i] ^= 1;
                check_word(c, i, "separator");
                return;
            }
            return;
        }
        if (nm[0] == 's') {
            int s = (int)(op.u(0) % NST);
            if (nm == "s.from_x1") {
                int n = 2 + (int)(op.u(1) % (MAXS - 1));
                uint8_t b[40];
                fill_bytes(b, 40, op.u(2));
                ascon_state_t x1;
                ascon_init(&x1);
                ascon_overwrite_bytes(&x1, b, 0, 40);
                g_tape.adv = be64(b);
                if (n == 2) ascon_x2_copy_from_x1(c.sp[s], &x1, &c.trng);
#if MAXS >= 3
                else if (n == 3) ascon_x3_copy_from_x1(c.sp[s], &x1, &c.trng);
#endif
#if MAXS >= 4
                else if (n == 4) ascon_x4_copy_from_x1(c.sp[s], &x1, &c.trng);
#endif
                ascon_free(&x1);
                c.sn[s] = n;
                memcpy(c.sv[s], b, 40);
                for (int k = 0; k < 4; ++k) c.preserve[s][k] = ascon_trng_generate_64(&c.trng);
                check_state(c, s, "copy_from_x1");
                return;
            }
            if (!c.sn[s]) return;
            int n = c.sn[s];
            if (nm == "s.permute") {
                unsigned fr = (unsigned)(op.u(1) % 12);
                if (op.u(2) & 1) for (int k = 0; k < 4; ++k) c.preserve[s][k] = ascon_trng_generate_64(&c.trng); // fresh instead of preserved
                g_tape.adv = be64(c.sv[s]);
                if (n == 2) ascon_x2_permute(c.sp[s], (uint8_t)fr, c.preserve[s]);
#if MAXS >= 3
                else if (n == 3) ascon_x3_permute(c.sp[s], (uint8_t)fr, c.preserve[s]);
#endif
#if MAXS >= 4
                else if (n == 4) ascon_x4_permute(c.sp[s], (uint8_t)fr, c.preserve[s]);
#endif
                // unmasked counterpart: the library's own ascon_permute
                ascon_state_t x1;
                ascon_init(&x1);
                ascon_overwrite_bytes(&x1, c.sv[s], 0, 40);
                ascon_permute(&x1, (uint8_t)fr);
                ascon_extract_bytes(&x1, c.sv[s], 0, 40);
                ascon_free(&x1);
                run.state(fmt("permute/%d/%u/%d", n, fr, (int)(op.u(2) & 1)));
                check_state(c, s, fmt("x%d_permute", n).c_str());
                return;
            }
            if (nm == "s.randomize") {
                uint8_t before[5][MAXS * 8], after[5][MAXS * 8];
                for (int k = 0; k < 5; ++k) memcpy(before[k], &c.sp[s]->M[k], MAXS * 8);
                if (n == 2) ascon_x2_randomize(c.sp[s], &c.trng);
#if MAXS >= 3
                else if (n == 3) ascon_x3_randomize(c.sp[s], &c.trng);
#endif
#if MAXS >= 4
                else if (n == 4) ascon_x4_randomize(c.sp[s], &c.trng);
#endif
                for (int k = 0; k < 5; ++k) memcpy(after[k], &c.sp[s]->M[k], MAXS * 8);
                check_state(c, s, fmt("x%d_randomize", n).c_str());
                for (int k = 0; k < 5; ++k) check_shares_changed(c, before[k], after[k], n, fmt("state_x%d_randomize", n));
                return;
            }
            if (nm == "s.convert") {
                int d = (int)(op.u(1) % NST);
                int to = 2 + (int)(op.u(2) % (MAXS - 1));
                ascon_masked_state_t *dst = c.sp[d], *src = c.sp[s];
                bool done = true;
                if (to == 2 && n == 2) ascon_x2_copy_from_x2(dst, src, &c.trng);
#if MAXS >= 3
                else if (to == 2 && n == 3) ascon_x2_copy_from_x3(dst, src, &c.trng);
                else if (to == 3 && n == 2) ascon_x3_copy_from_x2(dst, src, &c.trng);
                else if (to == 3 && n == 3) ascon_x3_copy_from_x3(dst, src, &c.trng);
#endif
#if MAXS >= 4
                else if (to == 2 && n == 4) ascon_x2_copy_from_x4(dst, src, &c.trng);
                else if (to == 3 && n == 4) ascon_x3_copy_from_x4(dst, src, &c.trng);
                else if (to == 4 && n == 2) ascon_x4_copy_from_x2(dst, src, &c.trng);
                else if (to == 4 && n == 3) ascon_x4_copy_from_x3(dst, src, &c.trng);
                else if (to == 4 && n == 4) ascon_x4_copy_from_x4(dst, src, &c.trng);
#endif
                else done = false;
                if (!done) return;
                c.sn[d] = to;
                if (d != s) memcpy(c.sv[d], c.sv[s], 40);
                for (int k = 0; k < 4; ++k) c.preserve[d][k] = ascon_trng_generate_64(&c.trng);
                run.state(fmt("sconvert/%d/%d/%d", n, to, (int)(d == s)));
                check_state(c, d, fmt("x%d_copy_from_x%d", to, n).c_str());
                return;
            }
            if (nm == "s.to_x1") { check_state(c, s, "copy_to_x1"); return; }
            return;
        }
        if (nm == "k.key") {
            int which = (int)(op.u(0) % 2);
            int how = (int)(op.u(1) % 3);
            size_t klen = which ? 20 : 16;
            Bytes key = bytes_of(klen, op.u(2));
            g_tape.adv = be64(key.data());
            uint8_t out[20];
            union { ascon_masked_key_128_t k128; ascon_masked_key_160_t k160; } mk;
            memset(&mk, 0x5c, sizeof mk);
            size_t words = which ? 6 : 2;
            if (which) ascon_masked_key_160_init(&mk.k160, key.data()); else ascon_masked_key_128_init(&mk.k128, key.data());
            if (which) ascon_masked_key_160_extract(&mk.k160, out); else ascon_masked_key_128_extract(&mk.k128, out);
            if (memcmp(out, key.data(), klen) != 0)
                run.violation("C10", "mask_then_extract_returns_key", which ? "masked_key_160" : "masked_key_128", fmt("tape=%s", tape_name[c.tape]));
            if (how) {
                uint8_t before[6][32], after[6][32];
                for (size_t k = 0; k < words; ++k) memcpy(before[k], which ? (void *)&mk.k160.k[k] : (void *)&mk.k128.k[k], 32);
                tape_mark();
                if (how == 1) { if (which) ascon_masked_key_160_randomize_with_trng(&mk.k160, &c.trng); else ascon_masked_key_128_randomize_with_trng(&mk.k128, &c.trng); }
                else { if (which) ascon_masked_key_160_randomize(&mk.k160); else ascon_masked_key_128_randomize(&mk.k128); }
                for (size_t k = 0; k < words; ++k) memcpy(after[k], which ? (void *)&mk.k160.k[k] : (void *)&mk.k128.k[k], 32);
                if (which) ascon_masked_key_160_extract(&mk.k160, out); else ascon_masked_key_128_extract(&mk.k128, out);
                if (memcmp(out, key.data(), klen) != 0)
                    run.violation("C10", "randomize_preserves_value", which ? "masked_key_160" : "masked_key_128", fmt("tape=%s", tape_name[c.tape]));
                for (size_t k = 0; k < words; ++k)
                    check_shares_changed(c, before[k], after[k], KEYS, which ? "masked_key_160_randomize" : "masked_key_128_randomize");
            }
            run.fold(out, klen);
            run.state(fmt("key/%d/%d", which, how));
            if (which) ascon_masked_key_160_free(&mk.k160); else ascon_masked_key_128_free(&mk.k128);
            return;
        }
        if (nm == "a.aead") {
            int alg = (int)(op.u(0) % 3);
            size_t mlen = (size_t)(op.u(1) % 2200), adlen = (size_t)(op.u(2) % 1100);
            int tamper = (int)(op.u(3) % 3);
            uint64_t sd = op.u(4);
            size_t klen = alg == 2 ? 20 : 16;
            Bytes key = bytes_of(klen, sd ^ 1), nonce = bytes_of(16, sd ^ 2), m = bytes_of(mlen, sd ^ 3), ad = bytes_of(adlen, sd ^ 4);
            g_tape.adv = be64(key.data());
            union { ascon_masked_key_128_t k128; ascon_masked_key_160_t k160; } mk;
            if (alg == 2) ascon_masked_key_160_init(&mk.k160, key.data()); else ascon_masked_key_128_init(&mk.k128, key.data());
            // a key may be re-randomised any number of times at any point of its life: before its first use (1, 3),
            // between two uses (2, 3), with the caller's or the library's own random source (4, 5 = 1 and 2 with the latter)
            int rr = (int)(op.u(5) % 6);
            auto rerandomize = [&](bool own) {
                if (alg == 2) { if (own) ascon_masked_key_160_randomize(&mk.k160); else ascon_masked_key_160_randomize_with_trng(&mk.k160, &c.trng); }
                else { if (own) ascon_masked_key_128_randomize(&mk.k128); else ascon_masked_key_128_randomize_with_trng(&mk.k128, &c.trng); }
                run.probe("aead.key_rerandomized_in_use");
            };
            if (rr == 1 || rr == 3 || rr == 4) rerandomize(rr == 4);
            GuardBuf ct(mlen + 16, (unsigned)mlen, c.page), ref(mlen + 16, 1, false);
            size_t cl = 0, rl = 0;
            const uint8_t *mp = mlen ? m.data() : nullptr, *ap = adlen ? ad.data() : nullptr;
            GuardBuf gm, ga, gn;
            const uint8_t *np = nonce.data();
            if (c.page) { // inputs end at a PROT_NONE page: an over-read by the (assembly) word loads faults
                gm.alloc(mlen, 0, true); gm.set(m); if (mlen) mp = gm.p;
                ga.alloc(adlen, 0, true); ga.set(ad); if (adlen) ap = ga.p;
                gn.alloc(16, 0, true); gn.set(nonce); np = gn.p;
            }
            if (alg == 0) { ascon128_masked_aead_encrypt(ct.p, &cl, mp, mlen, ap, adlen, np, &mk.k128); ascon128_aead_encrypt(ref.p, &rl, mp, mlen, ap, adlen, nonce.data(), key.data()); }
            else if (alg == 1) { ascon128a_masked_aead_encrypt(ct.p, &cl, mp, mlen, ap, adlen, np, &mk.k128); ascon128a_aead_encrypt(ref.p, &rl, mp, mlen, ap, adlen, nonce.data(), key.data()); }
            else { ascon80pq_masked_aead_encrypt(ct.p, &cl, mp, mlen, ap, adlen, np, &mk.k160); ascon80pq_aead_encrypt(ref.p, &rl, mp, mlen, ap, adlen, nonce.data(), key.data()); }
            static const char *an[3] = {"ascon128_masked_aead", "ascon128a_masked_aead", "ascon80pq_masked_aead"};
            if (!ct.intact()) run.violation("C12", "canary", std::string(an[alg]) + "_encrypt", "ciphertext canary damaged");
            if (cl != rl || memcmp(ct.p, ref.p, mlen + 16) != 0)
                run.violation("C10", "masked_aead_equals_unmasked", std::string(an[alg]) + "_encrypt",
                              fmt("tape=%s key_shares=%d data_shares=%d mlen=%zu adlen=%zu", tape_name[c.tape], KEYS, ASCON_MASKED_DATA_SHARES, mlen, adlen));
            run.fold(ct.p, mlen + 16);
            // masked decrypt against unmasked decrypt on the same (possibly tampered) input
            Bytes x(ref.p, ref.p + mlen + 16);
            if (tamper == 1) x[(size_t)(sd % x.size())] ^= 0x20;
            if (tamper == 2) x[x.size() - 1] ^= 1;
            GuardBuf pm(mlen, 2, c.page), pr(mlen, 3, false);
            GuardBuf gx;
            const uint8_t *xp = x.data();
            if (c.page) { gx.alloc(x.size(), 0, true); gx.set(x); xp = gx.p; }
            size_t ml = 0, rl2 = 0;
            int r1, r2;
            if (rr == 2 || rr == 3 || rr == 5) rerandomize(rr == 5);
            if (alg == 0) { r1 = ascon128_masked_aead_decrypt(pm.p, &ml, xp, x.size(), ap, adlen, np, &mk.k128); r2 = ascon128_aead_decrypt(pr.p, &rl2, x.data(), x.size(), ap, adlen, nonce.data(), key.data()); }
            else if (alg == 1) { r1 = ascon128a_masked_aead_decrypt(pm.p, &ml, xp, x.size(), ap, adlen, np, &mk.k128); r2 = ascon128a_aead_decrypt(pr.p, &rl2, x.data(), x.size(), ap, adlen, nonce.data(), key.data()); }
            else { r1 = ascon80pq_masked_aead_decrypt(pm.p, &ml, xp, x.size(), ap, adlen, np, &mk.k160); r2 = ascon80pq_aead_decrypt(pr.p, &rl2, x.data(), x.size(), ap, adlen, nonce.data(), key.data()); }
            if (!pm.intact()) run.violation("C12", "canary", std::string(an[alg]) + "_decrypt", "plaintext canary damaged");
            if ((r1 < 0) != (r2 < 0) || ml != rl2 || (mlen && memcmp(pm.p, pr.p, mlen) != 0))
                run.violation("C10", "masked_aead_equals_unmasked", std::string(an[alg]) + "_decrypt",
                              fmt("tape=%s tamper=%d mlen=%zu: masked result %d, unmasked result %d", tape_name[c.tape], tamper, mlen, r1, r2));
            run.fold_u64((uint64_t)(int64_t)r1);
            run.state(fmt("aead/%d/%s/%s/%d", alg, mlen == 0 ? "0" : mlen < 8 ? "<" : mlen % 8 == 0 ? "k" : ">", adlen == 0 ? "0" : adlen % 8 == 0 ? "k" : ">", tamper));
            if (alg == 2) ascon_masked_key_160_free(&mk.k160); else ascon_masked_key_128_free(&mk.k128);
            return;
        }
    }

    static void check_state(Ctx &c, int s, const char *after)
    {
        int n = c.sn[s];
        if (!n) return;
        ascon_state_t x1;
        uint8_t b[40];
        if (n == 2) ascon_x2_copy_to_x1(&x1, c.sp[s]);
#if MAXS >= 3
        else if (n == 3) ascon_x3_copy_to_x1(&x1, c.sp[s]);
#endif
#if MAXS >= 4
        else if (n == 4) ascon_x4_copy_to_x1(&x1, c.sp[s]);
#endif
        ascon_extract_bytes(&x1, b, 0, 40);
        ascon_free(&x1);
        if (memcmp(b, c.sv[s], 40) != 0) {
            int d = 0;
            while (d < 40 && b[d] == c.sv[s][d]) ++d;
            c.run->violation("C10", "masked_state_value", after,
                             fmt("tape=%s shares=%d after %s: copy_to_x1 differs from the unmasked computation at byte %d", tape_name[c.tape], n, after, d));
            memcpy(c.sv[s], b, 40);
        }
        c.run->fold(b, 40);
    }
};

int main(int argc, char **argv)
{
    MaskedWorld w;
    return worker_main(argc, argv, w);
}
