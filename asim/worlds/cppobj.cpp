// World `cppobj`: life-cycle histories of the C++ classes against the C API
// (C17; feeds C12, C13).  This translation unit instantiates every public member
// and overload of the cipher classes, hash/hasha, xof/xofa and their fixed-length
// templates and the byte-array helpers: compiling it *is* the "compiles when
// used" obligation of C17.
#define ASIM_MAIN 1
#include "core/asim.h"
#include "seams/simrng.h"
#include <ascon/aead.h>
#include <ascon/aead-masked.h>
#include <ascon/siv.h>
#include <ascon/isap.h>
#include <ascon/hash.h>
#include <ascon/xof.h>
#include <ascon/utility.h>
#include <memory>
#include <new>
#include <string>

using namespace asim;
typedef unsigned __int128 u128;

enum Cls { C_AEAD, C_MASK, C_SIV, C_ISAP, NCLS };
static const char *cls_name[NCLS] = {"aead", "aead_masked", "siv", "isap"};
static const char *alg_name[3] = {"128", "128a", "80pq"};
static std::string cname(int cls, int alg) { return std::string(cls_name[cls]) + alg_name[alg]; }
// byte_array from harness bytes through the one construction path both configurations (std::vector / ASCON_NO_STL) have
static ascon::byte_array ba_of(const Bytes &b)
{
    static const unsigned char z = 0;
    return ascon::bytes_from_data(b.empty() ? &z : b.data(), b.size());
}
// read a byte_array without touching it (the non-const begin() of the ASCON_NO_STL class un-shares the buffer)
static Bytes bytes_in(const ascon::byte_array &a) { return a.empty() ? Bytes() : Bytes(a.data(), a.data() + a.size()); }
static size_t klen_of(int cls, int alg) { (void)cls; return alg == 2 ? 20 : 16; }
static const uint8_t *ptr(const Bytes &b) { return b.empty() ? nullptr : b.data(); }

static void store128(uint8_t *b, u128 v) { for (int i = 15; i >= 0; --i) { b[i] = (uint8_t)v; v >>= 8; } }
static u128 load128(const uint8_t *b) { u128 v = 0; for (int i = 0; i < 16; ++i) v = (v << 8) | b[i]; return v; }

// ---- C API references --------------------------------------------------------
static Bytes c_encrypt(int cls, int alg, const Bytes &k, const uint8_t n[16], const Bytes &ad, const Bytes &m)
{
    Bytes c(m.size() + 16);
    size_t cl = 0;
    const uint8_t *mp = ptr(m), *ap = ptr(ad);
    if (cls == C_SIV) {
        if (alg == 0) ascon128_siv_encrypt(c.data(), &cl, mp, m.size(), ap, ad.size(), n, k.data());
        else if (alg == 1) ascon128a_siv_encrypt(c.data(), &cl, mp, m.size(), ap, ad.size(), n, k.data());
        else ascon80pq_siv_encrypt(c.data(), &cl, mp, m.size(), ap, ad.size(), n, k.data());
    } else if (cls == C_ISAP) {
        if (alg == 0) { ascon128_isap_aead_key_t pk; ascon128_isap_aead_init(&pk, k.data()); ascon128_isap_aead_encrypt(c.data(), &cl, mp, m.size(), ap, ad.size(), n, &pk); ascon128_isap_aead_free(&pk); }
        else if (alg == 1) { ascon128a_isap_aead_key_t pk; ascon128a_isap_aead_init(&pk, k.data()); ascon128a_isap_aead_encrypt(c.data(), &cl, mp, m.size(), ap, ad.size(), n, &pk); ascon128a_isap_aead_free(&pk); }
        else { ascon80pq_isap_aead_key_t pk; ascon80pq_isap_aead_init(&pk, k.data()); ascon80pq_isap_aead_encrypt(c.data(), &cl, mp, m.size(), ap, ad.size(), n, &pk); ascon80pq_isap_aead_free(&pk); }
    } else {
        if (alg == 0) ascon128_aead_encrypt(c.data(), &cl, mp, m.size(), ap, ad.size(), n, k.data());
        else if (alg == 1) ascon128a_aead_encrypt(c.data(), &cl, mp, m.size(), ap, ad.size(), n, k.data());
        else ascon80pq_aead_encrypt(c.data(), &cl, mp, m.size(), ap, ad.size(), n, k.data());
    }
    c.resize(cl);
    return c;
}
static Bytes c_saved_key(int alg, const Bytes &k)
{
    Bytes s(ASCON_ISAP_SAVED_KEY_SIZE);
    if (alg == 0) { ascon128_isap_aead_key_t pk; ascon128_isap_aead_init(&pk, k.data()); ascon128_isap_aead_save_key(&pk, s.data()); ascon128_isap_aead_free(&pk); }
    else if (alg == 1) { ascon128a_isap_aead_key_t pk; ascon128a_isap_aead_init(&pk, k.data()); ascon128a_isap_aead_save_key(&pk, s.data()); ascon128a_isap_aead_free(&pk); }
    else { ascon80pq_isap_aead_key_t pk; ascon80pq_isap_aead_init(&pk, k.data()); ascon80pq_isap_aead_save_key(&pk, s.data()); ascon80pq_isap_aead_free(&pk); }
    return s;
}

// ---- cipher objects ----------------------------------------------------------
struct Cipher {
    bool live = false;
    int cls = 0, alg = 0;
    alignas(16) unsigned char mem[4096]; // generous: object sizes are the library's business
    size_t size = 0;
    ascon::aead *obj = nullptr;
    Bytes key;      // model
    u128 nonce = 0; // model
    bool usable = true; // false after clear() until re-keyed and re-nonced
    bool key_known = true, nonce_known = true;
};

template <class T, class... A> static ascon::aead *place(Cipher &c, A... a)
{
    static_assert(sizeof(T) <= sizeof(c.mem), "mem too small");
    memset(c.mem, 0xD7, sizeof c.mem);
    c.size = sizeof(T);
    return new (c.mem) T(a...);
}

// how: 0 default ctor; 1 key ctor (full key); 2 key ctor with NULL (documented: all-zero key);
//      3 isap ctor with saved key (80); 4 isap ctor with len 0
static ascon::aead *construct(Cipher &c, int cls, int alg, int how, const Bytes &key)
{
    const uint8_t *k = how == 2 ? nullptr : key.data();
    Bytes saved;
    if (cls == C_ISAP && how == 3) saved = c_saved_key(alg, key);
    switch (cls * 3 + alg) {
    case 0: return how == 0 ? place<ascon::aead128>(c) : place<ascon::aead128>(c, k);
    case 1: return how == 0 ? place<ascon::aead128a>(c) : place<ascon::aead128a>(c, k);
    case 2: return how == 0 ? place<ascon::aead80pq>(c) : place<ascon::aead80pq>(c, k);
    case 3: return how == 0 ? place<ascon::aead128_masked>(c) : place<ascon::aead128_masked>(c, k);
    case 4: return how == 0 ? place<ascon::aead128a_masked>(c) : place<ascon::aead128a_masked>(c, k);
    case 5: return how == 0 ? place<ascon::aead80pq_masked>(c) : place<ascon::aead80pq_masked>(c, k);
    case 6: return how == 0 ? place<ascon::siv128>(c) : place<ascon::siv128>(c, k);
    case 7: return how == 0 ? place<ascon::siv128a>(c) : place<ascon::siv128a>(c, k);
    case 8: return how == 0 ? place<ascon::siv80pq>(c) : place<ascon::siv80pq>(c, k);
    default: {
        const uint8_t *kp = how == 3 ? saved.data() : key.data();
        size_t kl = how == 3 ? (size_t)ASCON_ISAP_SAVED_KEY_SIZE : how == 4 ? 0 : key.size();
        if (how == 0) return alg == 0 ? place<ascon::isap128>(c) : alg == 1 ? place<ascon::isap128a>(c) : place<ascon::isap80pq>(c);
        return alg == 0 ? place<ascon::isap128>(c, kp, kl) : alg == 1 ? place<ascon::isap128a>(c, kp, kl) : place<ascon::isap80pq>(c, kp, kl);
    }
    }
}

// ---- hash / xof objects: one type-erased wrapper per instantiated class --------
struct HObj {
    virtual ~HObj() {}
    virtual void upd_ptr(const uint8_t *p, size_t n) = 0;
    virtual void upd_cstr(const char *s) = 0;
    virtual void upd_ba(const ascon::byte_array &b) = 0;
    virtual void upd_str(const std::string &s) = 0;
    virtual void out_ptr(uint8_t *p, size_t n) = 0;
    virtual Bytes out_ba(size_t n) = 0;
    virtual void reset() = 0;
    virtual void pad() = 0;
    virtual HObj *clone() = 0;             // copy constructor
    virtual void assign(const HObj &o) = 0; // operator=
    virtual Bytes raw() const = 0;          // bytes of the wrapped object (for C13)
    virtual void destroy_in_place() = 0;    // run the destructor, keep the memory readable
    virtual bool is_hash() const = 0;
};
template <class T> struct HashW : HObj {
    alignas(16) unsigned char mem[sizeof(T)];
    T *o;
    HashW() { memset(mem, 0xD7, sizeof mem); o = new (mem) T(); }
    HashW(const HashW &x) : HObj() { memset(mem, 0xD7, sizeof mem); o = new (mem) T(*x.o); }
    void upd_ptr(const uint8_t *p, size_t n) override { o->update(p, n); }
    void upd_cstr(const char *s) override { o->update(s); }
    void upd_ba(const ascon::byte_array &b) override { o->update(b); }
#ifndef ASCON_NO_STL
    void upd_str(const std::string &s) override { o->update(s); }
#else
    void upd_str(const std::string &s) override { o->update((const unsigned char *)s.data(), s.size()); } // no std::string overload in this configuration
#endif
    void out_ptr(uint8_t *p, size_t) override { o->finalize(p); }
    Bytes out_ba(size_t) override { ascon::byte_array v = o->finalize(); return Bytes(v.begin(), v.end()); }
    void reset() override { o->reset(); }
    void pad() override {}
    HObj *clone() override { return new HashW(*this); }
    void assign(const HObj &x) override { *o = *static_cast<const HashW &>(x).o; (void)o->state(); (void)static_cast<const T *>(o)->state(); }
    Bytes raw() const override { return Bytes(mem, mem + sizeof(T)); }
    void destroy_in_place() override { o->~T(); }
    bool is_hash() const override { return true; }
};
template <class T> struct XofW : HObj {
    alignas(16) unsigned char mem[sizeof(T)];
    T *o;
    XofW() { memset(mem, 0xD7, sizeof mem); o = new (mem) T(); }
    XofW(const XofW &x) : HObj() { memset(mem, 0xD7, sizeof mem); o = new (mem) T(*x.o); }
    XofW(const char *name, const unsigned char *custom, size_t len) { memset(mem, 0xD7, sizeof mem); o = new (mem) T(name, custom, len); }
    XofW(const char *name, const ascon::byte_array &custom) { memset(mem, 0xD7, sizeof mem); o = new (mem) T(name, custom); }
    void upd_ptr(const uint8_t *p, size_t n) override { o->absorb(p, n); }
    void upd_cstr(const char *s) override { o->absorb(s); }
    void upd_ba(const ascon::byte_array &b) override { o->absorb(b); }
#ifndef ASCON_NO_STL
    void upd_str(const std::string &s) override { o->absorb(s); }
#else
    void upd_str(const std::string &s) override { o->absorb((const unsigned char *)s.data(), s.size()); }
#endif
    void out_ptr(uint8_t *p, size_t n) override { o->squeeze(p, n); }
    Bytes out_ba(size_t n) override { ascon::byte_array v = o->squeeze(n); return Bytes(v.begin(), v.end()); }
    void reset() override { o->reset(); }
    void pad() override { o->pad(); }
    HObj *clone() override { return new XofW(*this); }
    void assign(const HObj &x) override { *o = *static_cast<const XofW &>(x).o; (void)o->state(); (void)static_cast<const T *>(o)->state(); }
    Bytes raw() const override { return Bytes(mem, mem + sizeof(T)); }
    void destroy_in_place() override { o->~T(); }
    bool is_hash() const override { return false; }
};

// kinds: 0 hash, 1 hasha, 2..6 xof<0,1,17,32,64>, 7..11 xofa<0,1,17,32,64>
static const size_t XOF_L[5] = {0, 1, 17, 32, 64};
static const int NHK = 12;
static std::string hk_name(int k)
{
    if (k == 0) return "hash";
    if (k == 1) return "hasha";
    if (k == 2) return "xof";
    if (k == 7) return "xofa";
    return fmt("%s_with_output_length<%zu>", k < 7 ? "xof" : "xofa", XOF_L[(k - 2) % 5]);
}
static HObj *h_new(int k)
{
    switch (k) {
    case 0: return new HashW<ascon::hash>();
    case 1: return new HashW<ascon::hasha>();
    case 2: return new XofW<ascon::xof>();
    case 3: return new XofW<ascon::xof_with_output_length<1>>();
    case 4: return new XofW<ascon::xof_with_output_length<17>>();
    case 5: return new XofW<ascon::xof_with_output_length<32>>();
    case 6: return new XofW<ascon::xof_with_output_length<64>>();
    case 7: return new XofW<ascon::xofa>();
    case 8: return new XofW<ascon::xofa_with_output_length<1>>();
    case 9: return new XofW<ascon::xofa_with_output_length<17>>();
    case 10: return new XofW<ascon::xofa_with_output_length<32>>();
    default: return new XofW<ascon::xofa_with_output_length<64>>();
    }
}
static HObj *h_new_custom(int k, const char *name, const Bytes &custom, bool as_ba)
{
    ascon::byte_array ba = ba_of(custom);
#define MK(T) (as_ba ? new XofW<T>(name, ba) : new XofW<T>(name, ptr(custom), custom.size()))
    switch (k) {
    case 2: return MK(ascon::xof);
    case 3: return MK(ascon::xof_with_output_length<1>);
    case 4: return MK(ascon::xof_with_output_length<17>);
    case 5: return MK(ascon::xof_with_output_length<32>);
    case 6: return MK(ascon::xof_with_output_length<64>);
    case 7: return MK(ascon::xofa);
    case 8: return MK(ascon::xofa_with_output_length<1>);
    case 9: return MK(ascon::xofa_with_output_length<17>);
    case 10: return MK(ascon::xofa_with_output_length<32>);
    default: return MK(ascon::xofa_with_output_length<64>);
    }
#undef MK
}

// the C mirror of a hash/xof object
struct Mirror {
    int k = 0;
    union { ascon_hash_state_t h; ascon_hasha_state_t ha; ascon_xof_state_t x; ascon_xofa_state_t xa; } u;
    bool a() const { return k == 1 || k >= 7; }
    void init(int kind)
    {
        k = kind;
        size_t L = k >= 2 ? XOF_L[(k - 2) % 5] : 0;
        if (k == 0) ascon_hash_init(&u.h);
        else if (k == 1) ascon_hasha_init(&u.ha);
        else if (k < 7) { if (L) ascon_xof_init_fixed(&u.x, L); else ascon_xof_init(&u.x); }
        else { if (L) ascon_xofa_init_fixed(&u.xa, L); else ascon_xofa_init(&u.xa); }
    }
    void init_custom(int kind, const char *name, const Bytes &custom)
    {
        k = kind;
        size_t L = XOF_L[(k - 2) % 5];
        if (k < 7) ascon_xof_init_custom(&u.x, name, ptr(custom), custom.size(), L);
        else ascon_xofa_init_custom(&u.xa, name, ptr(custom), custom.size(), L);
    }
    void upd(const uint8_t *p, size_t n)
    {
        if (k == 0) ascon_hash_update(&u.h, p, n); else if (k == 1) ascon_hasha_update(&u.ha, p, n);
        else if (k < 7) ascon_xof_absorb(&u.x, p, n); else ascon_xofa_absorb(&u.xa, p, n);
    }
    void out(uint8_t *p, size_t n)
    {
        if (k == 0) ascon_hash_finalize(&u.h, p); else if (k == 1) ascon_hasha_finalize(&u.ha, p);
        else if (k < 7) ascon_xof_squeeze(&u.x, p, n); else ascon_xofa_squeeze(&u.xa, p, n);
    }
    void reset()
    {
        size_t L = k >= 2 ? XOF_L[(k - 2) % 5] : 0;
        if (k == 0) ascon_hash_reinit(&u.h); else if (k == 1) ascon_hasha_reinit(&u.ha);
        else if (k < 7) { if (L) ascon_xof_reinit_fixed(&u.x, L); else ascon_xof_reinit(&u.x); }
        else { if (L) ascon_xofa_reinit_fixed(&u.xa, L); else ascon_xofa_reinit(&u.xa); }
    }
    void pad() { if (k >= 2 && k < 7) ascon_xof_pad(&u.x); else if (k >= 7) ascon_xofa_pad(&u.xa); }
    void copy_from(const Mirror &o)
    {
        k = o.k;
        if (k == 0) ascon_hash_copy(&u.h, &o.u.h); else if (k == 1) ascon_hasha_copy(&u.ha, &o.u.ha);
        else if (k < 7) ascon_xof_copy(&u.x, &o.u.x); else ascon_xofa_copy(&u.xa, &o.u.xa);
    }
    void free_()
    {
        if (k == 0) ascon_hash_free(&u.h); else if (k == 1) ascon_hasha_free(&u.ha);
        else if (k < 7) ascon_xof_free(&u.x); else ascon_xofa_free(&u.xa);
    }
};

// Compile obligation on the CONCRETE class types: every documented encrypt/decrypt overload, inherited from
// ascon::aead, is called on an object whose static type is the derived class (a member declared in a derived class
// under one of these names would hide all inherited overloads there, while calls through aead& keep compiling).
template <class T> static int concrete_overloads()
{
    T o;
    unsigned char buf[64] = {0}, msg[8] = {1, 2, 3}, ad[4] = {4, 5};
    ascon::byte_array c, m = ba_of(Bytes(8, 1)), a = ba_of(Bytes(4, 2)), out;
    int r = o.encrypt(buf, msg, sizeof msg);
    r += o.encrypt(buf, msg, sizeof msg, ad, sizeof ad);
    o.encrypt(c, m);
    o.encrypt(c, m, a);
    r += o.decrypt(msg, buf, 24);
    r += o.decrypt(msg, buf, 24, ad, sizeof ad);
    r += o.decrypt(out, c) ? 1 : 0;
    r += o.decrypt(out, c, a) ? 1 : 0;
    o.set_nonce(msg, sizeof msg);
    o.set_counter(5);
    r += (int)(o.key_size() + o.tag_size() + o.nonce_size());
    o.clear();
    return r;
}
typedef int (*concrete_fn)();
static const concrete_fn g_concrete_overloads[] __attribute__((used)) = {
    concrete_overloads<ascon::aead128>, concrete_overloads<ascon::aead128a>, concrete_overloads<ascon::aead80pq>,
    concrete_overloads<ascon::aead128_masked>, concrete_overloads<ascon::aead128a_masked>, concrete_overloads<ascon::aead80pq_masked>,
    concrete_overloads<ascon::siv128>, concrete_overloads<ascon::siv128a>, concrete_overloads<ascon::siv80pq>,
    concrete_overloads<ascon::isap128>, concrete_overloads<ascon::isap128a>, concrete_overloads<ascon::isap80pq>};

struct CppWorld : World {
    const char *name() const override { return "cppobj"; }
    enum { NC = 3, NH = 3 };

    static size_t pick_len(Rng &r)
    {
        switch (r.below(9)) {
        case 0: return 0;
        case 1: return 1;
        case 2: return 7;
        case 3: return 8;
        case 4: return 9;
        case 5: return 16;
        case 6: return 17;
        case 7: return r.chance(1, 8) ? 300 + r.below(700) : 31 + r.below(4);
        default: return r.below(40);
        }
    }

    void gen(Rng &r, Plan &pl, bool thorough) override
    {
        if (getenv("ASIM_TWIN")) pl.add("knob.twin", {1});
        // in half of the runs every 8th operation (those at one residue) meets a dead system entropy source:
        // it only feeds masking randomness, so nothing an object returns may change
        pl.add("knob.rngdead", {(int64_t)(r.chance(1, 2) ? r.below(8) : 99)});
        int nops = thorough ? 16 + (int)r.below(44) : 10 + (int)r.below(32);
        bool clive[NC] = {false, false, false};
        int ccls[NC] = {0, 0, 0};
        bool cusable[NC] = {true, true, true};
        bool hlive[NH] = {false, false, false};
        int hkind[NH] = {0, 0, 0};
        bool hfinished[NH] = {false, false, false};
        for (int i = 0; i < nops; ++i) {
            if (r.chance(3, 5)) {
                int c = (int)r.below(NC);
                if (!clive[c]) {
                    int cls = (int)r.below(NCLS);
                    int how = cls == C_ISAP ? (int)r.below(5) : (int)r.below(3);
                    pl.add("new", {c, cls, (int64_t)r.below(3), how, (int64_t)(r.next() >> 1)});
                    clive[c] = true; ccls[c] = cls; cusable[c] = true;
                    continue;
                }
                unsigned k = (unsigned)r.below(100);
                if (!cusable[c]) { pl.add("setkey", {c, 0, (int64_t)(r.next() >> 1)}); pl.add("setnonce", {c, 16, (int64_t)(r.next() >> 1)}); cusable[c] = true; continue; }
                if (k < 30) pl.add("enc", {c, (int64_t)pick_len(r), (int64_t)pick_len(r), (int64_t)(r.next() >> 1), (int64_t)r.below(4)});
                else if (k < 50) pl.add("dec", {c, (int64_t)pick_len(r), (int64_t)pick_len(r), (int64_t)(r.next() >> 1), (int64_t)r.below(4), (int64_t)r.below(3)});
                else if (k < 65) {
                    int how = ccls[c] == C_ISAP ? (int)r.below(5) : (int)r.pickv({0, 1, 2, 4});
                    pl.add("setkey", {c, how, (int64_t)(r.next() >> 1)});
                } else if (k < 73) pl.add("setnonce", {c, r.pickv({0, 1, 8, 15, 16, 17, 24}), (int64_t)(r.next() >> 1), (int64_t)(r.chance(1, 3) ? 1 + r.below(16) : 0)});
                else if (k < 78) pl.add("setcounter", {c, (int64_t)(r.chance(1, 2) ? r.below(1000) : (r.next() >> 1)), (int64_t)r.below(6)});
                else if (k < 83) pl.add("savekey", {c});
                else if (k < 87) pl.add("randomize", {c});
                else if (k < 92) { pl.add("clear", {c}); cusable[c] = false; }
                else { pl.add("del", {c}); clive[c] = false; }
            } else {
                int h = (int)r.below(NH);
                if (!hlive[h] || hfinished[h]) {
                    if (hlive[h] && r.chance(1, 2)) { pl.add("hreset", {h}); hfinished[h] = false; continue; }
                    int kind = (int)r.below(NHK);
                    int how = kind >= 2 ? (int)r.pickv({0, 0, 2, 3}) : 0;
                    pl.add("hnew", {h, kind, how, r.pickv({0, 1, 4, 31, 32, 33, 40}), r.pickv({0, 0, 1, 8, 13}), (int64_t)(r.next() >> 1)});
                    hlive[h] = true; hkind[h] = kind; hfinished[h] = false;
                    continue;
                }
                unsigned k = (unsigned)r.below(100);
                if (k < 45) pl.add("hupd", {h, (int64_t)r.below(4), (int64_t)pick_len(r), (int64_t)(r.next() >> 1)});
                else if (k < 65) { pl.add("hout", {h, (int64_t)r.below(2), (int64_t)pick_len(r)}); if (hkind[h] < 2) hfinished[h] = true; }
                else if (k < 75) { int j = (int)r.below(NH); pl.add("hcopy", {j, h}); if (j != h && hlive[h]) { hlive[j] = true; hkind[j] = hkind[h]; hfinished[j] = hfinished[h]; } }
                else if (k < 83) { int j = (int)r.below(NH); pl.add("hassign", {j, h}); if (hlive[j] && hkind[j] == hkind[h]) hfinished[j] = hfinished[h]; }
                else if (k < 88) pl.add("hpad", {h});
                else if (k < 93) { pl.add("hreset", {h}); hfinished[h] = false; }
                else if (k < 95) pl.add("hdigest", {(int64_t)r.below(2), (int64_t)pick_len(r), (int64_t)(r.next() >> 1)});
                else if (k < 97) pl.add("helper", {(int64_t)r.below(8), (int64_t)r.pickv({0, 1, 2, 7, 16, 33, 100, 127, 128, 129, 255, 256, 257, 300, 600}), (int64_t)r.below(6), (int64_t)(r.next() >> 1)});
                else { pl.add("hdel", {h}); hlive[h] = false; }
            }
        }
    }

    struct HSlot { HObj *o = nullptr; Mirror m; int kind = 0; bool squeezing = false; };
    struct Ctx {
        Run *run;
        bool record;
        uint64_t salt;
        Cipher c[NC];
        HSlot h[NH];
        std::vector<Bytes> *residue;
        ascon::byte_array out_m, out_c; // output arrays the "application" reuses from call to call
    };

    // An application keeps an earlier result by value (keep = out) and hands the same output array to the next call.
    // The kept value is what the C function returned then and must still be that afterwards (with ASCON_NO_STL the
    // arrays share one reference-counted buffer until one of them is written).
    static void kept_copy_check(Ctx &c, const std::string &site, const ascon::byte_array &keep, const Bytes &keepb)
    {
        if (!c.record) return;
        c.run->probe("packet.output_array_reused_with_kept_copy");
        if (bytes_in(keep) != keepb)
            viol(c, "equals_c_api", site + ".kept_copy_of_earlier_result",
                 fmt("a by-value copy of the previous result (%zu bytes) now holds %zu bytes / different content after the output array was reused", keepb.size(), (size_t)keep.size()));
    }

    static void viol(Ctx &c, const char *oracle, const std::string &site, const std::string &detail)
    {
        if (c.record) c.run->violation("C17", oracle, site, detail);
    }

    // History independence (C13): an object of the same class that was only default-constructed and then cleared /
    // destroyed (in 0xD7-filled memory like every object here, on a private entropy tape) must leave the same bytes as
    // this one did after its whole life.  A differing byte was left over from what the object did (packets processed,
    // nonce reached, keys seen).  clear() of the masked classes is excluded: it may leave a freshly masked zero key.
    static void unused_object_residue(Ctx &c, const Cipher &C, bool via_clear)
    {
        if (!c.record || (via_clear && C.cls == C_MASK)) return;
        static Cipher S; // 4 KiB: not on the stack
        simrng_t tmp;
        memset(&tmp, 0, sizeof tmp);
        simrng_reset(&tmp, 0xBA5E11AEull, SIMRNG_RANDOM);
        simrng_t *prev = simrng_cur();
        simrng_use(&tmp);
        ascon::aead *o = construct(S, C.cls, C.alg, 0, Bytes());
        if (via_clear) o->clear();
        o->~aead();
        simrng_use(prev);
        if (via_clear) return unused_cmp(c, C, S, "clear");
        unused_cmp(c, C, S, "destructor");
    }
    static void unused_cmp(Ctx &c, const Cipher &C, const Cipher &S, const char *how)
    {
        c.run->probe("twin.free_vs_unused_object");
        if (memcmp(C.mem, S.mem, C.size) == 0) return;
        size_t d = 0;
        while (d < C.size && C.mem[d] == S.mem[d]) ++d;
        c.run->violation("C13", "residue_depends_on_history", fmt("%s%s.%s", cls_name[C.cls], alg_name[C.alg], how),
                         fmt("byte %zu of %zu is 0x%02x after this object's history and 0x%02x for an object that was never used", d, C.size, C.mem[d], S.mem[d]));
    }

    static void c_del(Ctx &c, int i, bool via_clear)
    {
        Cipher &C = c.c[i];
        if (!C.live) return;
        if (via_clear) {
            C.obj->clear();
            if (c.residue) {
                // the vptr stays; everything else must be independent of the secrets
                c.residue->push_back(Bytes(C.mem, C.mem + C.size));
                // compared while the cleared object is still alive, against a cleared-and-still-alive unused one
                if (c.record && C.cls != C_MASK) {
                    static Cipher S;
                    simrng_t tmp;
                    memset(&tmp, 0, sizeof tmp);
                    simrng_reset(&tmp, 0xBA5E11AEull, SIMRNG_RANDOM);
                    simrng_t *prev = simrng_cur();
                    simrng_use(&tmp);
                    ascon::aead *o = construct(S, C.cls, C.alg, 0, Bytes());
                    o->clear();
                    unused_cmp(c, C, S, "clear");
                    o->~aead();
                    simrng_use(prev);
                }
            }
            C.usable = false;
            C.key_known = C.nonce_known = false;
            return;
        }
        C.obj->~aead();
        if (c.residue) {
            c.residue->push_back(Bytes(C.mem, C.mem + C.size));
            unused_object_residue(c, C, false);
        }
        C.live = false;
    }

    static Bytes full_key(Ctx &c, int cls, int alg, uint64_t seed) { return bytes_of(klen_of(cls, alg), seed ^ c.salt ^ 0x4b); }

    static void do_new(Ctx &c, const Op &op)
    {
        int i = (int)(op.u(0) % NC);
        Cipher &C = c.c[i];
        if (C.live) c_del(c, i, false);
        C.cls = (int)(op.u(1) % NCLS);
        C.alg = (int)(op.u(2) % 3);
        int how = (int)(op.u(3) % 5);
        if (C.cls != C_ISAP && how > 2) how = 1;
        if (C.cls == C_ISAP && how == 2) how = 4; // the ISAP constructors take (key, len): len 0 is the documented all-zero key
        Bytes key = full_key(c, C.cls, C.alg, op.u(4));
        C.obj = construct(C, C.cls, C.alg, how, key);
        C.live = true;
        C.usable = true;
        C.key_known = C.nonce_known = true;
        C.key = (how == 0 || how == 2 || how == 4) ? Bytes(key.size(), 0) : key;
        C.nonce = 0;
        if (c.record) {
            static const char *hn[5] = {"default_ctor", "key_ctor", "key_ctor_null", "isap_ctor_saved_key", "isap_ctor_len0"};
            c.run->state(fmt("new/%s/%s", cname(C.cls, C.alg).c_str(), hn[how]));
            c.run->probe(std::string("keying.") + hn[how]);
            if (C.obj->key_size() != key.size() || C.obj->tag_size() != 16 || C.obj->nonce_size() != 16)
                viol(c, "size_accessors", cname(C.cls, C.alg), fmt("key_size=%zu tag_size=%zu nonce_size=%zu", C.obj->key_size(), C.obj->tag_size(), C.obj->nonce_size()));
        }
    }

    static void do_setkey(Ctx &c, const Op &op)
    {
        Cipher &C = c.c[op.u(0) % NC];
        if (!C.live) return;
        int how = (int)(op.u(1) % 5);
        if (C.cls != C_ISAP && how == 3) how = 0;
        Bytes key = full_key(c, C.cls, C.alg, op.u(2));
        std::string site = cname(C.cls, C.alg) + ".set_key";
        bool r = true;
        switch (how) {
        case 0: r = C.obj->set_key(key.data(), key.size()); C.key = key; break;
        case 1: r = C.obj->set_key(nullptr, 0); C.key.assign(key.size(), 0); break;
        case 2: r = C.obj->set_key(key.data(), 0); C.key.assign(key.size(), 0); break; // zero length means the all-zero key
        case 3: { Bytes s = c_saved_key(C.alg, key); r = C.obj->set_key(s.data(), s.size()); C.key = key; break; }
        case 4: {
            // aead.h: "the subclass may support other key sizes but this isn't guaranteed" - so the result for an
            // undocumented length is not judged; only that the call is harmless and the object can be re-keyed
            bool rr = C.obj->set_key(key.data(), 7);
            if (c.record) c.run->probe(rr ? "keying.set_key_len7_accepted" : "keying.set_key_len7_rejected");
            if (!rr && C.key_known && (op.u(2) & 1)) {
                // aead.h: "Returns true if the key was set, or false if key or len are invalid" - after `false` the key
                // was not set, so the object goes on under the key it had (judged by the packets that follow)
                if (c.record) c.run->probe("keying.rejected_set_key_keeps_old_key");
                r = true;
                break;
            }
            // accepted (what key a 7-byte key means is the subclass's business): re-key validly before further use
            r = C.obj->set_key(key.data(), key.size());
            C.key = key;
            break; }
        }
        C.key_known = true;
        if (C.nonce_known) C.usable = true;
        if (!r) viol(c, "set_key_result", site, fmt("how=%d returned false", how));
        if (c.record) {
            static const char *hn[5] = {"full", "zero_len_null", "zero_len_nonnull", "saved_isap_key", "bad_len_then_full"};
            c.run->probe(std::string("keying.set_key_") + hn[how]);
            c.run->state(fmt("setkey/%s/%s", cname(C.cls, C.alg).c_str(), hn[how]));
        }
    }

    static void do_packet(Ctx &c, const Op &op, bool dec)
    {
        Cipher &C = c.c[op.u(0) % NC];
        if (!C.live || !C.usable) return;
        size_t mlen = (size_t)(op.u(1) % 1100), adlen = (size_t)(op.u(2) % 1100);
        uint64_t sd = op.u(3);
        int ov = (int)(op.u(4) % 4); // 0 raw with AD, 1 raw without AD, 2 byte_array with AD, 3 byte_array without AD
        Bytes m = bytes_of(mlen, sd ^ 1 ^ c.salt), ad = (ov & 1) ? Bytes() : bytes_of(adlen, sd ^ 2);
        uint8_t n[16];
        store128(n, C.nonce);
        Bytes want = c_encrypt(C.cls, C.alg, C.key, n, ad, m);
        std::string site = cname(C.cls, C.alg) + (dec ? ".decrypt" : ".encrypt") + (ov >= 2 ? "(byte_array)" : "(ptr)");
        if (!dec) {
            Bytes got;
            int ret = (int)(mlen + 16);
            if (ov < 2) {
                GuardBuf o(mlen + 16, (unsigned)mlen, false);
                ret = (ov & 1) ? C.obj->encrypt(o.p, ptr(m), mlen) : C.obj->encrypt(o.p, ptr(m), mlen, ptr(ad), ad.size());
                if (c.record && !o.intact()) c.run->violation("C12", "canary", site, "ciphertext canary damaged");
                got = o.copy();
            } else {
                ascon::byte_array cv0, mv = ba_of(m), av = ba_of(ad);
                bool reuse = (sd >> 21) & 1;
                ascon::byte_array &cv = reuse ? c.out_c : cv0;
                ascon::byte_array keep = cv;
                Bytes keepb = bytes_in(keep);
                if (ov & 1) C.obj->encrypt(cv, mv); else C.obj->encrypt(cv, mv, av);
                got = bytes_in(cv);
                if (reuse) kept_copy_check(c, site, keep, keepb);
            }
            C.nonce += 1;
            if (c.record) {
                c.run->fold_bytes(got);
                if (got != want || ret != (int)(mlen + 16))
                    viol(c, "equals_c_api", site, fmt("mlen=%zu adlen=%zu ret=%d: output differs from the C function for the same key, nonce and data", mlen, ad.size(), ret));
                c.run->state(fmt("enc/%s/%d/%s", cname(C.cls, C.alg).c_str(), ov, mlen == 0 ? "0" : mlen < 8 ? "<" : ">"));
            }
            return;
        }
        int tamper = (int)(op.u(5) % 3);
        Bytes x = want;
        if (tamper == 1) x[(size_t)(sd % x.size())] ^= 0x40;
        if (tamper == 2) x.resize((size_t)(sd % 16)); // shorter than a tag
        bool expect_ok = tamper == 0;
        Bytes got;
        bool ok;
        int ret = 0;
        if (ov < 2) {
            GuardBuf o(x.size() >= 16 ? x.size() - 16 : 0, 3, false);
            // (fewer bytes than a tag is a valid call, documented to return -1; the plaintext buffer then has no room at all)
            {
                ret = (ov & 1) ? C.obj->decrypt(o.p, ptr(x), x.size()) : C.obj->decrypt(o.p, ptr(x), x.size(), ptr(ad), ad.size());
                ok = ret >= 0;
                if (c.record && !o.intact()) c.run->violation("C12", "canary", site, "plaintext canary damaged");
                if (ok) got.assign(o.p, o.p + (size_t)std::min<size_t>((size_t)ret, o.n));
            }
        } else {
            ascon::byte_array mv0(3, 0x55), cv = ba_of(x), av = ba_of(ad);
            bool reuse = (sd >> 21) & 1;
            ascon::byte_array &mv = reuse ? c.out_m : mv0;
            ascon::byte_array keep = mv;
            Bytes keepb = bytes_in(keep);
            ok = (ov & 1) ? C.obj->decrypt(mv, cv) : C.obj->decrypt(mv, cv, av);
            got = bytes_in(mv);
            if (reuse) kept_copy_check(c, site, keep, keepb);
            ret = ok ? (int)got.size() : -1;
            // what the output array holds after a reported failure is not documented: empty, all zero, or simply left as
            // it was are all fine; bytes that come from the rejected packet are not
            if (!ok) {
                bool zeros = true; // every byte is zero or what the array held at that place before the call
                for (size_t i2 = 0; i2 < got.size(); ++i2) if (got[i2] && !(i2 < keepb.size() && got[i2] == keepb[i2])) zeros = false;
                if (!got.empty() && !zeros)
                    viol(c, "failed_decrypt_releases_nothing", site, fmt("byte_array holds %zu bytes that are neither zero nor its previous content after a failed decrypt", got.size()));
            }
        }
        if (ok) C.nonce += 1;
        if (c.record) {
            c.run->fold_u64((uint64_t)(int64_t)ret);
            if (ok != expect_ok) viol(c, "equals_c_api", site, fmt("mlen=%zu tamper=%d: decrypt %s but the C function %s", mlen, tamper, ok ? "succeeded" : "failed", expect_ok ? "succeeds" : "fails"));
            else if (ok && (got != m || ret != (int)mlen)) viol(c, "equals_c_api", site, fmt("mlen=%zu ret=%d: plaintext differs", mlen, ret));
            c.run->state(fmt("dec/%s/%d/%d", cname(C.cls, C.alg).c_str(), ov, tamper));
        }
    }

    static void do_hnew(Ctx &c, const Op &op)
    {
        HSlot &H = c.h[op.u(0) % NH];
        h_del(c, (int)(op.u(0) % NH));
        int kind = (int)(op.u(1) % NHK);
        int how = (int)(op.u(2) % 4);
        H.kind = kind;
        H.squeezing = false;
        if (kind < 2 || how < 2) { H.o = h_new(kind); H.m.init(kind); }
        else {
            size_t nl = (size_t)(op.u(3) % 48), cl = (size_t)(op.u(4) % 64);
            std::string nm(nl, 'a');
            Bytes nb = bytes_of(nl, op.u(5) ^ 3);
            for (size_t k = 0; k < nl; ++k) nm[k] = (char)(33 + nb[k] % 94);
            Bytes custom = bytes_of(cl, op.u(5) ^ 4);
            H.o = h_new_custom(kind, nm.c_str(), custom, how == 3);
            H.m.init_custom(kind, nm.c_str(), custom);
        }
        if (c.record) c.run->state(fmt("hnew/%d/%d", kind, how));
    }
    static void h_del(Ctx &c, int i)
    {
        HSlot &H = c.h[i];
        if (!H.o) return;
        H.o->destroy_in_place();
        if (c.residue) c.residue->push_back(H.o->raw());
        // the wrapper's own storage is released without running ~T again
        ::operator delete((void *)H.o);
        H.o = nullptr;
        H.m.free_();
    }

    void pass(const Plan &plan, Run &run, bool record, uint64_t salt, std::vector<Bytes> *residue)
    {
        std::unique_ptr<Ctx> cp(new Ctx());
        Ctx &c = *cp;
        c.run = &run;
        c.record = record;
        c.salt = salt;
        c.residue = residue;
        // the entropy tape is the SAME in both twin executions: what must not survive a free is what the object was given
        // or derived from it (keys, nonces, messages); an object that is re-masked or refilled from fresh entropy while
        // it is cleared holds bytes that depend on the tape only, and those are equal in the twins
        (void)salt;
        simrng_reset(simrng_cur(), plan.digest(), SIMRNG_RANDOM);
        int idx = 0;
        int rngdead = (int)plan.knob("rngdead", 99);
        for (const Op &op : plan.ops) {
            run.cur_op = idx++;
            const std::string &nm = op.name;
            if (nm.compare(0, 5, "knob.") == 0) continue;
            if (record) { run.ops_done++; run.task(nm[0] == 'h' ? 10 + (int64_t)(op.u(0) % NH) : (int64_t)(op.u(0) % NC)); }
            struct DeadRng { bool on; DeadRng(bool o) : on(o) { if (on) simrng_arm(simrng_cur(), 0, 1); } ~DeadRng() { if (on) simrng_arm(simrng_cur(), 0, 0); } };
            DeadRng dead_rng(rngdead < 8 && (idx % 8) == rngdead);
            if (dead_rng.on && record) run.fault("rng.dead_during_operation");
            if (nm == "new") do_new(c, op);
            else if (nm == "setkey") do_setkey(c, op);
            else if (nm == "enc") do_packet(c, op, false);
            else if (nm == "dec") do_packet(c, op, true);
            else if (nm == "setnonce") {
                Cipher &C = c.c[op.u(0) % NC];
                if (!C.live) continue;
                size_t len = (size_t)(op.u(1) % 25);
                Bytes nb = bytes_of(len, op.u(2) ^ 0x6e ^ c.salt);
                // a third of the nonces end in a chain of 0xFF bytes: the packets that follow carry through it
                for (size_t k = 0; k < (size_t)(op.u(3) % 17) && k < len; ++k) nb[len - 1 - k] = 0xFF;
                uint8_t full[16] = {0};
                if (len >= 16) memcpy(full, nb.data(), 16); else if (len) memcpy(full + 16 - len, nb.data(), len);
                GuardBuf g(len, 1, false);
                g.set(nb);
                C.obj->set_nonce(len ? g.p : nullptr, len);
                C.nonce = load128(full);
                C.nonce_known = true;
                if (C.key_known) C.usable = true;
            } else if (nm == "setcounter") {
                Cipher &C = c.c[op.u(0) % NC];
                if (!C.live) continue;
                uint64_t cnt = op.u(1);
                switch (op.u(2) % 6) { // counters next to a carry out of the low 8 bytes, of the low 4, of the low 7
                case 1: cnt = ~(uint64_t)0 - (op.u(1) % 3); break;
                case 2: cnt = 0xFFFFFFFFull - (op.u(1) % 3); break;
                case 3: cnt = 0x00FFFFFFFFFFFFFFull - (op.u(1) % 3); break;
                default: break;
                }
                C.obj->set_counter(cnt);
                C.nonce = (u128)cnt;
                C.nonce_known = true;
                if (C.key_known) C.usable = true;
            } else if (nm == "savekey") {
                Cipher &C = c.c[op.u(0) % NC];
                if (!C.live || C.cls != C_ISAP || !C.usable) continue;
                GuardBuf g(ASCON_ISAP_SAVED_KEY_SIZE, 2, false);
                if (C.alg == 0) static_cast<ascon::isap128 *>(C.obj)->save_key(g.p);
                else if (C.alg == 1) static_cast<ascon::isap128a *>(C.obj)->save_key(g.p);
                else static_cast<ascon::isap80pq *>(C.obj)->save_key(g.p);
                if (record) {
                    if (!g.intact()) run.violation("C12", "canary", cname(C.cls, C.alg) + ".save_key", "canary damaged");
                    if (g.copy() != c_saved_key(C.alg, C.key)) viol(c, "equals_c_api", cname(C.cls, C.alg) + ".save_key", "saved key differs from the C save_key of the same key");
                    run.probe("isap.save_key");
                }
            } else if (nm == "randomize") {
                Cipher &C = c.c[op.u(0) % NC];
                if (!C.live || C.cls != C_MASK || !C.usable) continue;
                static_cast<ascon::aead_masked *>(C.obj)->randomize_key();
                if (record) run.probe("masked.randomize_key");
            } else if (nm == "clear") c_del(c, (int)(op.u(0) % NC), true);
            else if (nm == "del") c_del(c, (int)(op.u(0) % NC), false);
            else if (nm == "hnew") do_hnew(c, op);
            else if (nm == "hupd") {
                HSlot &H = c.h[op.u(0) % NH];
                if (!H.o || (H.kind < 2 && H.squeezing)) continue;
                int ov = (int)(op.u(1) % 4);
                size_t n = (size_t)(op.u(2) % 1100);
                Bytes d = bytes_of(n, op.u(3) ^ salt);
                if (ov == 1) for (auto &b : d) b = (uint8_t)(1 + b % 255); // C string: no NUL inside
                if (H.squeezing && H.kind >= 2) H.squeezing = false; // absorb after squeeze is defined for XOF objects by the C API the mirror uses
                if (ov == 0) { GuardBuf g(n, 1, false); g.set(d); H.o->upd_ptr(n ? g.p : nullptr, n); }
                else if (ov == 1) { std::string s(d.begin(), d.end()); H.o->upd_cstr(s.c_str()); if (op.u(3) % 7 == 0) H.o->upd_cstr(nullptr); }
                else if (ov == 2) { ascon::byte_array b = ba_of(d); H.o->upd_ba(b); }
                else { std::string s(d.begin(), d.end()); H.o->upd_str(s); }
                H.m.upd(ptr(d), n);
                if (record) run.state(fmt("hupd/%d/%d/%s", H.kind, ov, n == 0 ? "0" : n < 8 ? "<" : ">"));
            } else if (nm == "hout") {
                HSlot &H = c.h[op.u(0) % NH];
                if (!H.o || (H.kind < 2 && H.squeezing)) continue;
                int ov = (int)(op.u(1) % 2);
                size_t n = H.kind < 2 ? 32 : (size_t)(op.u(2) % 1100);
                Bytes got, want(n);
                if (ov == 0) { GuardBuf g(n, 2, false); H.o->out_ptr(g.p, n); if (record && !g.intact()) run.violation("C12", "canary", hk_name(H.kind), "output canary damaged"); got = g.copy(); }
                else got = H.o->out_ba(n);
                uint8_t dummy[1];
                H.m.out(n ? want.data() : dummy, n);
                H.squeezing = true;
                if (record) {
                    run.fold_bytes(got);
                    if (got != want) viol(c, "equals_c_api", hk_name(H.kind) + (ov ? ".out(byte_array)" : ".out(ptr)"), fmt("n=%zu: output differs from the C functions driven the same way", n));
                    run.state(fmt("hout/%d/%d", H.kind, ov));
                }
            } else if (nm == "hcopy") {
                int j = (int)(op.u(0) % NH), i = (int)(op.u(1) % NH);
                if (i == j || !c.h[i].o) continue;
                h_del(c, j);
                c.h[j].o = c.h[i].o->clone();
                c.h[j].m.copy_from(c.h[i].m);
                c.h[j].kind = c.h[i].kind;
                c.h[j].squeezing = c.h[i].squeezing;
                if (record) run.fault("obj.copy");
            } else if (nm == "hassign") {
                int j = (int)(op.u(0) % NH), i = (int)(op.u(1) % NH);
                if (!c.h[i].o || !c.h[j].o || c.h[i].kind != c.h[j].kind) continue;
                c.h[j].o->assign(*c.h[i].o);
                if (i != j) { c.h[j].m.free_(); c.h[j].m.copy_from(c.h[i].m); c.h[j].squeezing = c.h[i].squeezing; }
                if (record) run.fault(i == j ? "obj.self_assign" : "obj.assign");
            } else if (nm == "hpad") {
                HSlot &H = c.h[op.u(0) % NH];
                if (!H.o || H.kind < 2) continue;
                H.o->pad();
                H.m.pad();
                H.squeezing = false;
            } else if (nm == "hreset") {
                HSlot &H = c.h[op.u(0) % NH];
                if (!H.o) continue;
                H.o->reset();
                H.m.reset();
                H.squeezing = false;
                if (record) run.fault("obj.reinit");
            } else if (nm == "hdigest") {
                size_t n = (size_t)(op.u(1) % 1100);
                Bytes d = bytes_of(n, op.u(2));
                uint8_t a[32], b[32];
                if (op.u(0) & 1) { ascon::hasha::digest(a, ptr(d), n); ascon_hasha(b, ptr(d), n); } else { ascon::hash::digest(a, ptr(d), n); ascon_hash(b, ptr(d), n); }
                if (record && memcmp(a, b, 32) != 0) viol(c, "equals_c_api", (op.u(0) & 1) ? "hasha::digest" : "hash::digest", fmt("n=%zu", n));
            } else if (nm == "helper") {
                // the byte-array helper functions of utility.h against the C functions they wrap (C17: "returns exactly
                // what the corresponding C function returns")
                size_t n = (size_t)(op.u(1) % 700);
                int shape = (int)(op.u(2) % 6); // 0 clean, 1 white space inside, 2 an illegal character, 3 odd digit count, 4 upper case, 5 empty
                Bytes d = bytes_of(shape == 5 ? 0 : n, op.u(3));
                bool upper = (op.u(0) & 1) != 0;
                // C reference encoding
                std::vector<char> cbuf(2 * d.size() + 1);
                int cl = ascon_bytes_to_hex(cbuf.data(), cbuf.size(), ptr(d), d.size(), upper);
                std::string chex(cbuf.data(), cl < 0 ? 0 : (size_t)cl);
                ascon::byte_array dv = ascon::bytes_from_data(ptr(d), d.size());
                if (record && Bytes(dv.begin(), dv.end()) != d) viol(c, "equals_c_api", "bytes_from_data", fmt("n=%zu", d.size()));
#ifndef ASCON_NO_STL
                std::string h1 = ascon::bytes_to_hex(ptr(d), d.size(), upper), h2 = ascon::bytes_to_hex(dv, upper);
#else
                std::string h1 = chex, h2 = chex; // the std::string helpers do not exist in this configuration
#endif
                if (record && (h1 != chex || h2 != chex)) viol(c, "equals_c_api", "bytes_to_hex", fmt("n=%zu upper=%d: C function gives %zu characters, helpers %zu/%zu", d.size(), (int)upper, chex.size(), h1.size(), h2.size()));
                // a text derived from the encoding, decoded by the C function and by the three helper overloads
                std::string text = chex;
                Rng tr(op.u(3) ^ 0x7e);
                if (shape == 1) for (int k = 0; k < 3; ++k) text.insert(text.begin() + (long)tr.below(text.size() + 1), " \t\n\r\f\v"[tr.below(6)]);
                if (shape == 2) { char bad = "gG:@/`xz-_"[tr.below(10)]; if (text.empty()) text += bad; else text[tr.below(text.size())] = bad; }
                if (shape == 3) text += 'a';
                if (shape == 4) for (auto &ch : text) ch = (char)(tr.chance(1, 2) ? toupper((unsigned char)ch) : tolower((unsigned char)ch));
                std::vector<unsigned char> cout(text.size() / 2 + 1);
                int dl = ascon_bytes_from_hex(cout.data(), cout.size(), text.data(), text.size());
                Bytes want = dl < 0 ? Bytes() : Bytes(cout.begin(), cout.begin() + dl); // documented: empty array for invalid input
                ascon::byte_array v1 = ascon::bytes_from_hex(text.data(), text.size()), v2 = ascon::bytes_from_hex(text.c_str());
#ifndef ASCON_NO_STL
                ascon::byte_array v3 = ascon::bytes_from_hex(text);
#else
                ascon::byte_array v3 = v2;
#endif
                if (record) {
                    if (Bytes(v1.begin(), v1.end()) != want) viol(c, "equals_c_api", "bytes_from_hex(ptr,len)", fmt("shape=%d: helper %zu bytes, C function %d", shape, v1.size(), dl));
                    if (Bytes(v2.begin(), v2.end()) != want) viol(c, "equals_c_api", "bytes_from_hex(cstr)", fmt("shape=%d: helper %zu bytes, C function %d", shape, v2.size(), dl));
                    if (Bytes(v3.begin(), v3.end()) != want) viol(c, "equals_c_api", "bytes_from_hex(std::string)", fmt("shape=%d: helper %zu bytes, C function %d", shape, v3.size(), dl));
                    run.fold_bytes(want);
                    run.state(fmt("helper/%d/%d", shape, dl < 0));
                }
            } else if (nm == "hdel") h_del(c, (int)(op.u(0) % NH));
        }
        for (int i = 0; i < NC; ++i) c_del(c, i, false);
        for (int i = 0; i < NH; ++i) h_del(c, i);
    }

    void exec(const Plan &plan, Run &run) override
    {
        bool twin = plan.knob("twin", 0) != 0;
        std::vector<Bytes> r1, r2;
        pass(plan, run, true, 0, twin ? &r1 : nullptr);
        if (twin) {
            pass(plan, run, false, 0x7e57ab1e5ec2e7ULL, &r2);
            for (size_t i = 0; i < std::min(r1.size(), r2.size()); ++i) {
                run.probe("twin.free_compared");
                if (r1[i] != r2[i]) {
                    size_t d = 0;
                    while (d < r1[i].size() && d < r2[i].size() && r1[i][d] == r2[i][d]) ++d;
                    run.violation("C13", "residue_after_free", fmt("cpp_object_size_%zu", r1[i].size()),
                                  fmt("C++ object bytes after clear()/destructor differ between twin-secret runs at offset %zu of %zu", d, r1[i].size()));
                }
            }
        }
    }
};

int main(int argc, char **argv)
{
    CppWorld w;
    return worker_main(argc, argv, w);
}
