// World `channel`: sender A and receiver B over a hostile datagram network
// (C02, C14; feeds C09, C12, C13).  The network (packet pool) is the only
// transport; the seeded scheduler decides sends, deliveries, drops, duplicates,
// reordering, corruption, truncation, extension, re-keying and nonce changes.
#define ASIM_MAIN 1
#include "core/asim.h"
#include <sys/mman.h>
#include "seams/simrng.h"
#include <ascon/aead.h>
#include <ascon/aead-masked.h>
#include <ascon/siv.h>
#include <ascon/isap.h>
#include <memory>
#include <new>

using namespace asim;

typedef unsigned __int128 u128;

enum Cls { ONE, INC, MASK, SIV, ISAP, CPP_AEAD, CPP_MASK, CPP_SIV, CPP_ISAP, NCLS };
enum Alg { A128, A128A, A80 };
static const char *cls_name[NCLS] = {"oneshot", "inc", "masked", "siv", "isap", "cpp_aead", "cpp_masked", "cpp_siv", "cpp_isap"};
static const char *alg_name[3] = {"128", "128a", "80pq"};
static const int NFAM = NCLS * 3;
static int fam_cls(int f) { return f / 3; }
static int fam_alg(int f) { return f % 3; }
static std::string fam_name(int f) { return std::string(cls_name[fam_cls(f)]) + alg_name[fam_alg(f)]; }
static size_t fam_keylen(int f) { return fam_alg(f) == A80 ? 20 : 16; }
static bool is_cpp(int f) { return fam_cls(f) >= CPP_AEAD; }

static u128 load128(const uint8_t *b)
{
    u128 v = 0;
    for (int i = 0; i < 16; ++i) v = (v << 8) | b[i];
    return v;
}
static void store128(uint8_t *b, u128 v)
{
    for (int i = 15; i >= 0; --i) { b[i] = (uint8_t)v; v >>= 8; }
}
static const uint8_t *ptr(const Bytes &b) { return b.empty() ? nullptr : b.data(); }

// ---------------------------------------------------------------------------
// One-shot C entry points by (class, algorithm); key is raw bytes.
static void c_encrypt(int cls, int alg, uint8_t *c, size_t *clen, const uint8_t *m, size_t mlen,
                      const uint8_t *ad, size_t adlen, const uint8_t *n, const uint8_t *k)
{
    switch (cls) {
    case SIV: case CPP_SIV:
        if (alg == A128) ascon128_siv_encrypt(c, clen, m, mlen, ad, adlen, n, k);
        else if (alg == A128A) ascon128a_siv_encrypt(c, clen, m, mlen, ad, adlen, n, k);
        else ascon80pq_siv_encrypt(c, clen, m, mlen, ad, adlen, n, k);
        break;
    case ISAP: case CPP_ISAP: {
        // reference for ISAP uses a throw-away pre-computed key
        if (alg == A128) { ascon128_isap_aead_key_t pk; ascon128_isap_aead_init(&pk, k); ascon128_isap_aead_encrypt(c, clen, m, mlen, ad, adlen, n, &pk); ascon128_isap_aead_free(&pk); }
        else if (alg == A128A) { ascon128a_isap_aead_key_t pk; ascon128a_isap_aead_init(&pk, k); ascon128a_isap_aead_encrypt(c, clen, m, mlen, ad, adlen, n, &pk); ascon128a_isap_aead_free(&pk); }
        else { ascon80pq_isap_aead_key_t pk; ascon80pq_isap_aead_init(&pk, k); ascon80pq_isap_aead_encrypt(c, clen, m, mlen, ad, adlen, n, &pk); ascon80pq_isap_aead_free(&pk); }
        break; }
    default:
        if (alg == A128) ascon128_aead_encrypt(c, clen, m, mlen, ad, adlen, n, k);
        else if (alg == A128A) ascon128a_aead_encrypt(c, clen, m, mlen, ad, adlen, n, k);
        else ascon80pq_aead_encrypt(c, clen, m, mlen, ad, adlen, n, k);
    }
}

static int c_decrypt(int cls, int alg, uint8_t *m, size_t *mlen, const uint8_t *c, size_t clen,
                     const uint8_t *ad, size_t adlen, const uint8_t *n, const uint8_t *k)
{
    switch (cls) {
    case SIV: case CPP_SIV:
        if (alg == A128) return ascon128_siv_decrypt(m, mlen, c, clen, ad, adlen, n, k);
        if (alg == A128A) return ascon128a_siv_decrypt(m, mlen, c, clen, ad, adlen, n, k);
        return ascon80pq_siv_decrypt(m, mlen, c, clen, ad, adlen, n, k);
    case ISAP: case CPP_ISAP: {
        int r;
        if (alg == A128) { ascon128_isap_aead_key_t pk; ascon128_isap_aead_init(&pk, k); r = ascon128_isap_aead_decrypt(m, mlen, c, clen, ad, adlen, n, &pk); ascon128_isap_aead_free(&pk); }
        else if (alg == A128A) { ascon128a_isap_aead_key_t pk; ascon128a_isap_aead_init(&pk, k); r = ascon128a_isap_aead_decrypt(m, mlen, c, clen, ad, adlen, n, &pk); ascon128a_isap_aead_free(&pk); }
        else { ascon80pq_isap_aead_key_t pk; ascon80pq_isap_aead_init(&pk, k); r = ascon80pq_isap_aead_decrypt(m, mlen, c, clen, ad, adlen, n, &pk); ascon80pq_isap_aead_free(&pk); }
        return r; }
    default:
        if (alg == A128) return ascon128_aead_decrypt(m, mlen, c, clen, ad, adlen, n, k);
        if (alg == A128A) return ascon128a_aead_decrypt(m, mlen, c, clen, ad, adlen, n, k);
        return ascon80pq_aead_decrypt(m, mlen, c, clen, ad, adlen, n, k);
    }
}

// An endpoint holds the library objects of one side of a session.
struct Endpoint {
    int fam = 0;
    Bytes key;
    uint8_t nonce[16];     // harness-held nonce for the C families (passed explicitly)
    u128 model = 0;        // what the property says the nonce must be
    bool calibrated = false; // C++: object produced a correct packet under an explicit full nonce
    bool unverifiable = false;
    union {
        ascon128_state_t s128; ascon128a_state_t s128a; ascon80pq_state_t s80;
        ascon_masked_key_128_t mk128; ascon_masked_key_160_t mk160;
        ascon128_isap_aead_key_t ik128; ascon128a_isap_aead_key_t ik128a; ascon80pq_isap_aead_key_t ik80;
    } u;
    alignas(16) unsigned char cppmem[4096];
    ascon::aead *cpp = nullptr;
    bool live = false;
    size_t obj_bytes() const
    {
        switch (fam_cls(fam)) {
        case INC: return fam_alg(fam) == A128 ? sizeof(ascon128_state_t) : fam_alg(fam) == A128A ? sizeof(ascon128a_state_t) : sizeof(ascon80pq_state_t);
        case MASK: return fam_alg(fam) == A80 ? sizeof(ascon_masked_key_160_t) : sizeof(ascon_masked_key_128_t);
        case ISAP: return fam_alg(fam) == A128 ? sizeof(ascon128_isap_aead_key_t) : fam_alg(fam) == A128A ? sizeof(ascon128a_isap_aead_key_t) : sizeof(ascon80pq_isap_aead_key_t);
        default: return 0;
        }
    }
    size_t cpp_size = 0;
    int keypath = 0; // C++ families: 0 default constructor + set_key(full length), 1 key constructor (re-keying constructs anew)
};

static bool g_ad_is_own_nonce = false; // incremental sessions: pass the session's own (public) nonce field as the associated data
static int g_start_nonce_bad = 0;      // incremental start() that did not advance the public nonce field by one: family + 1, reported by the operation
static bool g_mask_extract_bad = false; // set by ep_key_objects, reported (and cleared) by the operation that caused it

template <class T> static ascon::aead *make_cpp(Endpoint &e)
{
    static_assert(sizeof(T) <= sizeof(e.cppmem), "cppmem too small");
    e.cpp_size = sizeof(T);
    return new (e.cppmem) T();
}
// keying path 1: the key constructor (the ISAP classes take (key, length))
template <class T> static ascon::aead *make_cpp_k(Endpoint &e, const uint8_t *k)
{
    e.cpp_size = sizeof(T);
    return new (e.cppmem) T(k);
}
template <class T> static ascon::aead *make_cpp_kl(Endpoint &e, const uint8_t *k, size_t len)
{
    e.cpp_size = sizeof(T);
    return new (e.cppmem) T(k, len);
}

static void ep_key_objects(Endpoint &e, bool re)
{
    int alg = fam_alg(e.fam);
    const uint8_t *k = e.key.data();
    switch (fam_cls(e.fam)) {
    case INC:
        if (alg == A128) re ? ascon128_aead_reinit(&e.u.s128, e.nonce, k) : ascon128_aead_init(&e.u.s128, e.nonce, k);
        else if (alg == A128A) re ? ascon128a_aead_reinit(&e.u.s128a, e.nonce, k) : ascon128a_aead_init(&e.u.s128a, e.nonce, k);
        else re ? ascon80pq_aead_reinit(&e.u.s80, e.nonce, k) : ascon80pq_aead_init(&e.u.s80, e.nonce, k);
        break;
    case MASK:
        if (re) { if (alg == A80) ascon_masked_key_160_free(&e.u.mk160); else ascon_masked_key_128_free(&e.u.mk128); }
        if (alg == A80) ascon_masked_key_160_init(&e.u.mk160, k); else ascon_masked_key_128_init(&e.u.mk128, k);
        // a masked key may be re-randomised at any time and must keep its value (judged where the key is used and,
        // through the extracted bytes, right here); half of the endpoints do it before their first packet
        {
            uint8_t out[20];
            if ((e.key[0] ^ e.nonce[15]) & 1) { if (alg == A80) ascon_masked_key_160_randomize(&e.u.mk160); else ascon_masked_key_128_randomize(&e.u.mk128); }
            if (alg == A80) ascon_masked_key_160_extract(&e.u.mk160, out); else ascon_masked_key_128_extract(&e.u.mk128, out);
            g_mask_extract_bad |= memcmp(out, k, e.key.size()) != 0;
        }
        break;
    case ISAP:
        if (re) { if (alg == A128) ascon128_isap_aead_free(&e.u.ik128); else if (alg == A128A) ascon128a_isap_aead_free(&e.u.ik128a); else ascon80pq_isap_aead_free(&e.u.ik80); }
        if (alg == A128) ascon128_isap_aead_init(&e.u.ik128, k);
        else if (alg == A128A) ascon128a_isap_aead_init(&e.u.ik128a, k);
        else ascon80pq_isap_aead_init(&e.u.ik80, k);
        break;
    case CPP_AEAD: case CPP_MASK: case CPP_SIV: case CPP_ISAP:
        if (e.keypath == 1) {
            if (re) e.cpp->~aead();
            switch (e.fam) {
            case CPP_AEAD * 3 + 0: e.cpp = make_cpp_k<ascon::aead128>(e, k); break;
            case CPP_AEAD * 3 + 1: e.cpp = make_cpp_k<ascon::aead128a>(e, k); break;
            case CPP_AEAD * 3 + 2: e.cpp = make_cpp_k<ascon::aead80pq>(e, k); break;
            case CPP_MASK * 3 + 0: e.cpp = make_cpp_k<ascon::aead128_masked>(e, k); break;
            case CPP_MASK * 3 + 1: e.cpp = make_cpp_k<ascon::aead128a_masked>(e, k); break;
            case CPP_MASK * 3 + 2: e.cpp = make_cpp_k<ascon::aead80pq_masked>(e, k); break;
            case CPP_SIV * 3 + 0: e.cpp = make_cpp_k<ascon::siv128>(e, k); break;
            case CPP_SIV * 3 + 1: e.cpp = make_cpp_k<ascon::siv128a>(e, k); break;
            case CPP_SIV * 3 + 2: e.cpp = make_cpp_k<ascon::siv80pq>(e, k); break;
            case CPP_ISAP * 3 + 0: e.cpp = make_cpp_kl<ascon::isap128>(e, k, e.key.size()); break;
            case CPP_ISAP * 3 + 1: e.cpp = make_cpp_kl<ascon::isap128a>(e, k, e.key.size()); break;
            default: e.cpp = make_cpp_kl<ascon::isap80pq>(e, k, e.key.size()); break;
            }
            if (re) { uint8_t n[16]; store128(n, e.model); e.cpp->set_nonce(n, 16); } // a new object starts at nonce 0: restore the one in use
            break;
        }
        if (!re) {
            switch (e.fam) {
            case CPP_AEAD * 3 + 0: e.cpp = make_cpp<ascon::aead128>(e); break;
            case CPP_AEAD * 3 + 1: e.cpp = make_cpp<ascon::aead128a>(e); break;
            case CPP_AEAD * 3 + 2: e.cpp = make_cpp<ascon::aead80pq>(e); break;
            case CPP_MASK * 3 + 0: e.cpp = make_cpp<ascon::aead128_masked>(e); break;
            case CPP_MASK * 3 + 1: e.cpp = make_cpp<ascon::aead128a_masked>(e); break;
            case CPP_MASK * 3 + 2: e.cpp = make_cpp<ascon::aead80pq_masked>(e); break;
            case CPP_SIV * 3 + 0: e.cpp = make_cpp<ascon::siv128>(e); break;
            case CPP_SIV * 3 + 1: e.cpp = make_cpp<ascon::siv128a>(e); break;
            case CPP_SIV * 3 + 2: e.cpp = make_cpp<ascon::siv80pq>(e); break;
            case CPP_ISAP * 3 + 0: e.cpp = make_cpp<ascon::isap128>(e); break;
            case CPP_ISAP * 3 + 1: e.cpp = make_cpp<ascon::isap128a>(e); break;
            default: e.cpp = make_cpp<ascon::isap80pq>(e); break;
            }
        }
        e.cpp->set_key(k, e.key.size());
        break;
    default: break;
    }
}

static void ep_push_nonce(Endpoint &e)
{
    // make the library object hold e.nonce (explicit 16-byte nonce)
    int alg = fam_alg(e.fam);
    switch (fam_cls(e.fam)) {
    case INC: {
        uint8_t n[16];
        memcpy(n, e.nonce, 16);
        if (alg == A128) memcpy(e.u.s128.nonce, n, 16);       // public field of the session object
        else if (alg == A128A) memcpy(e.u.s128a.nonce, n, 16);
        else memcpy(e.u.s80.nonce, n, 16);
        break; }
    case CPP_AEAD: case CPP_MASK: case CPP_SIV: case CPP_ISAP: e.cpp->set_nonce(e.nonce, 16); break;
    default: break;
    }
}

static void ep_setup(Endpoint &e, int fam, const Bytes &key, const uint8_t nonce[16], int keypath = 0)
{
    e.fam = fam;
    e.keypath = keypath;
    e.key = key;
    memcpy(e.nonce, nonce, 16);
    e.model = load128(nonce);
    memset(&e.u, 0xD7, sizeof e.u);
    memset(e.cppmem, 0xD7, sizeof e.cppmem);
    ep_key_objects(e, false);
    if (is_cpp(fam)) ep_push_nonce(e);
    e.live = true;
    e.calibrated = false;
}

static void ep_free(Endpoint &e, Bytes *residue)
{
    if (!e.live) return;
    int alg = fam_alg(e.fam);
    switch (fam_cls(e.fam)) {
    case INC:
        if (alg == A128) ascon128_aead_free(&e.u.s128); else if (alg == A128A) ascon128a_aead_free(&e.u.s128a); else ascon80pq_aead_free(&e.u.s80);
        break;
    case MASK: if (alg == A80) ascon_masked_key_160_free(&e.u.mk160); else ascon_masked_key_128_free(&e.u.mk128); break;
    case ISAP:
        if (alg == A128) ascon128_isap_aead_free(&e.u.ik128); else if (alg == A128A) ascon128a_isap_aead_free(&e.u.ik128a); else ascon80pq_isap_aead_free(&e.u.ik80);
        break;
    case CPP_AEAD: case CPP_MASK: case CPP_SIV: case CPP_ISAP:
        e.cpp->~aead();
        e.cpp = nullptr;
        break;
    default: break;
    }
    if (residue) {
        if (is_cpp(e.fam)) residue->assign(e.cppmem, e.cppmem + e.cpp_size);
        else residue->assign((uint8_t *)&e.u, (uint8_t *)&e.u + e.obj_bytes());
    }
    e.live = false;
}

// Encrypt one packet through the endpoint's own entry-point family.
// For INC the message is fed in `chunks` pieces.  Returns ciphertext||tag.
static Bytes ep_encrypt(Endpoint &e, const Bytes &m, const Bytes &ad, Rng *chunker, bool page, Run &run)
{
    int alg = fam_alg(e.fam);
    GuardBuf c(m.size() + 16, (unsigned)m.size(), page);
    size_t clen = 0;
    // in page mode every input ends at a PROT_NONE page as well, so that an over-read (also by assembly code) faults
    GuardBuf gm, ga, gk, gn;
    const uint8_t *mp = ptr(m), *ap = ptr(ad), *kp = e.key.data(), *np = e.nonce;
    if (page) {
        gm.alloc(m.size(), 0, true); gm.set(m); if (!m.empty()) mp = gm.p;
        ga.alloc(ad.size(), 0, true); ga.set(ad); if (!ad.empty()) ap = ga.p;
        gk.alloc(e.key.size(), 0, true); gk.set(e.key); kp = gk.p;
        gn.alloc(16, 0, true); memcpy(gn.p, e.nonce, 16); np = gn.p;
    }
    // a quarter of the one-shot packets (plain, SIV, ISAP, masked) are computed in place: output buffer = input buffer
    if (fam_cls(e.fam) != INC && !is_cpp(e.fam) && !m.empty() && (m.size() * 3 + ad.size()) % 4 == 1) { memcpy(c.p, mp, m.size()); mp = c.p; }
    switch (fam_cls(e.fam)) {
    case ONE: case SIV:
        c_encrypt(fam_cls(e.fam), alg, c.p, &clen, mp, m.size(), ap, ad.size(), np, kp);
        break;
    case MASK:
        if (alg == A128) ascon128_masked_aead_encrypt(c.p, &clen, mp, m.size(), ap, ad.size(), np, &e.u.mk128);
        else if (alg == A128A) ascon128a_masked_aead_encrypt(c.p, &clen, mp, m.size(), ap, ad.size(), np, &e.u.mk128);
        else ascon80pq_masked_aead_encrypt(c.p, &clen, mp, m.size(), ap, ad.size(), np, &e.u.mk160);
        break;
    case ISAP:
        if (alg == A128) ascon128_isap_aead_encrypt(c.p, &clen, mp, m.size(), ap, ad.size(), np, &e.u.ik128);
        else if (alg == A128A) ascon128a_isap_aead_encrypt(c.p, &clen, mp, m.size(), ap, ad.size(), np, &e.u.ik128a);
        else ascon80pq_isap_aead_encrypt(c.p, &clen, mp, m.size(), ap, ad.size(), np, &e.u.ik80);
        break;
    case INC: {
        size_t pos = 0;
        {
            uint8_t *field = alg == A128 ? e.u.s128.nonce : alg == A128A ? e.u.s128a.nonce : e.u.s80.nonce;
            const uint8_t *adp = g_ad_is_own_nonce && ad.size() == 16 && memcmp(field, ad.data(), 16) == 0 ? field : ap;
            if (adp == field) run.probe("inc.ad_is_the_sessions_nonce_field");
            u128 before = load128(field);
            if (alg == A128) ascon128_aead_start(&e.u.s128, adp, ad.size());
            else if (alg == A128A) ascon128a_aead_start(&e.u.s128a, adp, ad.size());
            else ascon80pq_aead_start(&e.u.s80, adp, ad.size());
            if (load128(field) != (u128)(before + 1)) g_start_nonce_bad = e.fam + 1; // "starting each packet advances the stored nonce"
        }
        // a third of the chunked packets are processed in place (aead.h allows input == output for the block calls)
        bool inplace = chunker && !m.empty() && chunker->chance(1, 3);
        if (inplace) memcpy(c.p, mp, m.size());
        while (pos < m.size()) {
            size_t n = chunker ? (chunker->chance(1, 6) ? 0 : 1 + (size_t)chunker->below(m.size() - pos)) : m.size() - pos; // empty calls too
            const uint8_t *src = inplace ? c.p + pos : mp + pos;
            if (alg == A128) ascon128_aead_encrypt_block(&e.u.s128, src, c.p + pos, n);
            else if (alg == A128A) ascon128a_aead_encrypt_block(&e.u.s128a, src, c.p + pos, n);
            else ascon80pq_aead_encrypt_block(&e.u.s80, src, c.p + pos, n);
            pos += n;
        }
        if (alg == A128) ascon128_aead_encrypt_finalize(&e.u.s128, c.p + m.size());
        else if (alg == A128A) ascon128a_aead_encrypt_finalize(&e.u.s128a, c.p + m.size());
        else ascon80pq_aead_encrypt_finalize(&e.u.s80, c.p + m.size());
        clen = m.size() + 16;
        break; }
    default: { // C++: every packet goes through one of the four overloads (the nonce discipline is the same for all)
        unsigned ov = (unsigned)((m.size() * 7 + ad.size()) % 4);
        if (ov < 2) {
            int r = ov == 0 || !ad.empty() ? e.cpp->encrypt(c.p, mp, m.size(), ap, ad.size()) : e.cpp->encrypt(c.p, mp, m.size());
            clen = r < 0 ? 0 : (size_t)r;
        } else {
            ascon::byte_array cv, mv(m.begin(), m.end()), av(ad.begin(), ad.end());
            if (ov == 2 || !ad.empty()) e.cpp->encrypt(cv, mv, av); else e.cpp->encrypt(cv, mv);
            clen = cv.size();
            if (clen && clen <= c.n) memcpy(c.p, cv.data(), clen);
        }
        break; }
    }
    if (!c.intact()) run.violation("C12", "canary", fam_name(e.fam) + ".encrypt", "ciphertext canary damaged");
    if (clen != m.size() + 16)
        run.violation("C02", "encrypt_length", fam_name(e.fam), fmt("reported clen=%zu for mlen=%zu", clen, m.size()));
    return Bytes(c.p, c.p + std::min(clen, c.n));
}

static bool g_inc_not_started = false;

// Decrypt through the endpoint's family. *wiped = plaintext buffer all zero afterwards.
static int ep_decrypt(Endpoint &e, const Bytes &x, const Bytes &ad, Bytes &m_out, size_t *mlen_rep, bool *wiped,
                      Rng *chunker, bool page, Run &run)
{
    int alg = fam_alg(e.fam);
    size_t cap = x.size() >= 16 ? x.size() - 16 : 0;
    bool oneshot_inplace = fam_cls(e.fam) != INC && !is_cpp(e.fam) && x.size() >= 16 && (x.size() * 3 + ad.size()) % 4 == 2;
    GuardBuf m(oneshot_inplace ? x.size() : cap, (unsigned)x.size() + 3, page, 0xA5);
    size_t mlen = (size_t)-1;
    int r = 0;
    GuardBuf gx, ga, gk, gn;
    const uint8_t *xp = ptr(x), *ap = ptr(ad), *kp = e.key.data(), *np = e.nonce;
    if (page) {
        gx.alloc(x.size(), 0, true); gx.set(x); if (!x.empty()) xp = gx.p;
        ga.alloc(ad.size(), 0, true); ga.set(ad); if (!ad.empty()) ap = ga.p;
        gk.alloc(e.key.size(), 0, true); gk.set(e.key); kp = gk.p;
        gn.alloc(16, 0, true); memcpy(gn.p, e.nonce, 16); np = gn.p;
    }
    if (oneshot_inplace) { memcpy(m.p, xp, x.size()); xp = m.p; }
    switch (fam_cls(e.fam)) {
    case ONE:
        if (alg == A128) r = ascon128_aead_decrypt(m.p, &mlen, xp, x.size(), ap, ad.size(), np, kp);
        else if (alg == A128A) r = ascon128a_aead_decrypt(m.p, &mlen, xp, x.size(), ap, ad.size(), np, kp);
        else r = ascon80pq_aead_decrypt(m.p, &mlen, xp, x.size(), ap, ad.size(), np, kp);
        break;
    case SIV:
        if (alg == A128) r = ascon128_siv_decrypt(m.p, &mlen, xp, x.size(), ap, ad.size(), np, kp);
        else if (alg == A128A) r = ascon128a_siv_decrypt(m.p, &mlen, xp, x.size(), ap, ad.size(), np, kp);
        else r = ascon80pq_siv_decrypt(m.p, &mlen, xp, x.size(), ap, ad.size(), np, kp);
        break;
    case MASK:
        if (alg == A128) r = ascon128_masked_aead_decrypt(m.p, &mlen, xp, x.size(), ap, ad.size(), np, &e.u.mk128);
        else if (alg == A128A) r = ascon128a_masked_aead_decrypt(m.p, &mlen, xp, x.size(), ap, ad.size(), np, &e.u.mk128);
        else r = ascon80pq_masked_aead_decrypt(m.p, &mlen, xp, x.size(), ap, ad.size(), np, &e.u.mk160);
        break;
    case ISAP:
        if (alg == A128) r = ascon128_isap_aead_decrypt(m.p, &mlen, xp, x.size(), ap, ad.size(), np, &e.u.ik128);
        else if (alg == A128A) r = ascon128a_isap_aead_decrypt(m.p, &mlen, xp, x.size(), ap, ad.size(), np, &e.u.ik128a);
        else r = ascon80pq_isap_aead_decrypt(m.p, &mlen, xp, x.size(), ap, ad.size(), np, &e.u.ik80);
        break;
    case INC: {
        if (x.size() < 16) { *mlen_rep = 0; *wiped = true; m_out.clear(); g_inc_not_started = true; return -1; } // a receiver cannot even split off a tag: the library is not called
        size_t pos = 0;
        {
            uint8_t *field = alg == A128 ? e.u.s128.nonce : alg == A128A ? e.u.s128a.nonce : e.u.s80.nonce;
            const uint8_t *adp = g_ad_is_own_nonce && ad.size() == 16 && memcmp(field, ad.data(), 16) == 0 ? field : ap;
            u128 before = load128(field);
            if (alg == A128) ascon128_aead_start(&e.u.s128, adp, ad.size());
            else if (alg == A128A) ascon128a_aead_start(&e.u.s128a, adp, ad.size());
            else ascon80pq_aead_start(&e.u.s80, adp, ad.size());
            if (load128(field) != (u128)(before + 1)) g_start_nonce_bad = e.fam + 1;
        }
        bool inplace = chunker && cap != 0 && chunker->chance(1, 3);
        if (inplace) memcpy(m.p, xp, cap);
        while (pos < cap) {
            size_t n = chunker ? (chunker->chance(1, 6) ? 0 : 1 + (size_t)chunker->below(cap - pos)) : cap - pos;
            const uint8_t *src = inplace ? m.p + pos : xp + pos;
            if (alg == A128) ascon128_aead_decrypt_block(&e.u.s128, src, m.p + pos, n);
            else if (alg == A128A) ascon128a_aead_decrypt_block(&e.u.s128a, src, m.p + pos, n);
            else ascon80pq_aead_decrypt_block(&e.u.s80, src, m.p + pos, n);
            pos += n;
        }
        if (alg == A128) r = ascon128_aead_decrypt_finalize(&e.u.s128, xp + cap);
        else if (alg == A128A) r = ascon128a_aead_decrypt_finalize(&e.u.s128a, xp + cap);
        else r = ascon80pq_aead_decrypt_finalize(&e.u.s80, xp + cap);
        mlen = cap;
        break; }
    default: {
        unsigned ov = (unsigned)((x.size() * 5 + ad.size()) % 4);
        if (ov < 2 || x.size() < 16) {
            r = ov == 0 || !ad.empty() ? e.cpp->decrypt(m.p, xp, x.size(), ap, ad.size()) : e.cpp->decrypt(m.p, xp, x.size());
            mlen = r < 0 ? 0 : (size_t)r;
        } else {
            ascon::byte_array mv, cv(x.begin(), x.end()), av(ad.begin(), ad.end());
            bool ok = ov == 2 || !ad.empty() ? e.cpp->decrypt(mv, cv, av) : e.cpp->decrypt(mv, cv);
            r = ok ? (int)mv.size() : -1;
            mlen = ok ? mv.size() : 0;
            if (ok && mlen <= m.n && mlen) memcpy(m.p, mv.data(), mlen);
            if (!ok) memset(m.p, 0, m.n); // nothing is handed out by the raw buffer convention of this harness
        }
        break; }
    }
    if (!m.intact()) run.violation("C12", "canary", fam_name(e.fam) + ".decrypt", "plaintext canary damaged");
    *mlen_rep = mlen;
    bool z = true;
    for (size_t i = 0; i < cap; ++i) if (m.p[i] != 0) z = false;
    *wiped = z;
    m_out.assign(m.p, m.p + cap);
    return r;
}

struct Packet {
    Bytes key, ad, ct, pt;
    uint8_t nonce[16];
    int seq;
};

struct Session {
    bool live = false;
    int fam = 0;
    Endpoint A, B;
    std::vector<Packet> ledger;   // every encryption A performed
    std::vector<int> pool;        // indices into ledger still "in the network"
    int sent = 0;
};

struct ChannelWorld : World {
    const char *name() const override { return "channel"; }
    enum { NSESS = 3 };

    static size_t pick_len(Rng &r, unsigned rate)
    {
        switch (r.below(10)) {
        case 0: return 0;
        case 1: return 1;
        case 2: return rate - 1;
        case 3: return rate;
        case 4: return rate + 1;
        case 5: return 2 * rate;
        case 6: return r.chance(1, 8) ? 500 + r.below(3500) : 3 * rate + r.below(rate);
        default: return r.below(5 * rate);
        }
    }

    void gen(Rng &r, Plan &pl, bool thorough) override
    {
        if (getenv("ASIM_HUGE")) {
            // one packet whose associated data is 2^32 + 11 bytes long (size_t lengths: "AD of every length"); a plan of
            // this batch holds nothing else, each costs from half a minute to a few minutes
            pl.add("hugead", {(int64_t)r.below(12), (int64_t)(r.next() >> 1)});
            return;
        }
        if (getenv("ASIM_TWIN")) pl.add("knob.twin", {1});
        pl.add("knob.page", {(int64_t)(r.below(4) == 0)});
        int nsess = 1 + (int)r.below(NSESS);
        bool faulty = !r.chance(1, 5); // fault-free batches are run separately by construction
        int nops = thorough ? 20 + (int)r.below(45) : 10 + (int)r.below(40);
        int sent[NSESS] = {0, 0, 0};
        bool live[NSESS] = {false, false, false};
        const char *only = getenv("ASIM_CHANNEL_CLS"); // development aid
        for (int i = 0; i < nops; ++i) {
            int s = (int)r.below(nsess);
            if (!live[s]) {
                int fam = only ? atoi(only) * 3 + (int)r.below(3) : (int)r.below(NFAM);
                pl.add("sess", {s, fam, (int64_t)(r.next() >> 1), (int64_t)r.below(17), (int64_t)r.below(4)});
                live[s] = true; sent[s] = 0;
                continue;
            }
            unsigned c = (unsigned)r.below(100);
            if (c < 30 || sent[s] == 0) {
                pl.add("send", {s, (int64_t)pick_len(r, 8 << r.below(2)), (int64_t)pick_len(r, 8), (int64_t)(r.next() >> 1), (int64_t)r.chance(1, 8)});
                sent[s]++;
            } else if (c < 70) {
                // deliver: mostly the oldest undelivered packet (in order), sometimes any (reorder/dup)
                int sel = r.chance(3, 4) ? -1 : (int)r.below(8);
                int fk = faulty && r.chance(2, 5) ? 1 + (int)r.below(8) : 0;
                pl.add("deliver", {s, sel, fk, (int64_t)(r.next() >> 1), (int64_t)r.chance(1, 3), (int64_t)r.chance(1, 8)});
            } else if (c < 75 && faulty) {
                pl.add("drop", {s, (int64_t)r.below(8)});
            } else if (c < 80 && faulty) {
                pl.add("rekey", {s, (int64_t)r.below(3), (int64_t)(r.next() >> 1)});
            } else if (c < 88) {
                // nonce helpers: 0 set_counter, 1 set_nonce(len), both ends or one end
                int kind = (int)r.below(3);
                int64_t arg = kind != 1 ? (int64_t)(r.chance(1, 3) ? (r.next() >> 1) : (r.chance(1, 2) ? 0xFFFFFFFFFFFFLL + (int64_t)r.below(3) : (int64_t)r.below(70000)))
                                        : r.pickv({0, 1, 7, 8, 12, 15, 16, 17, 24});
                pl.add("nonce", {s, (int64_t)r.below(3), kind, arg, (int64_t)(r.next() >> 1)});
            } else if (c < 93) {
                pl.add("storm", {s, (int64_t)r.below(8), (int64_t)r.below(4), (int64_t)(r.next() >> 1), (int64_t)r.below(2)});
            } else if (c < 96) {
                pl.add("sync", {s});
            } else {
                pl.add("close", {s});
                live[s] = false;
            }
        }
        for (int s = 0; s < NSESS; ++s) if (live[s]) pl.add("close", {s});
    }

    // ---------------------------------------------------------------------
    struct Ctx {
        Run *run;
        uint64_t salt;
        bool page, record;
        Session S[NSESS];
        std::vector<Bytes> *residue;
    };

    static void make_nonce(uint8_t n[16], uint64_t seed, unsigned carry)
    {
        fill_bytes(n, 16, seed ^ 0x4e4f);
        carry %= 17;
        for (unsigned i = 0; i < carry; ++i) n[15 - i] = 0xFF;
        if (carry < 16 && n[15 - carry] == 0xFF) n[15 - carry] = 0x7E;
    }

    static unsigned carry_len(u128 v)
    {
        unsigned c = 0;
        while (c < 16 && (uint8_t)(v >> (8 * c)) == 0xFF) ++c;
        return c;
    }

    // after an operation that advanced the nonce according to the property
    static void advance_model(Ctx &c, Endpoint &e)
    {
        if (c.record) {
            unsigned cl = carry_len(e.model);
            c.run->probe(fmt("carry.%u", cl));
            if (cl == 16) c.run->probe("carry.wrap");
        }
        e.model += 1;
    }

    // The nonce the library is about to use for the next packet, for families where
    // the harness passes or can read it: C families (explicit array) and INC (public field).
    static void sync_explicit_nonce(Ctx &c, Endpoint &e, const char *when)
    {
        int cls = fam_cls(e.fam);
        if (cls == INC) {
            const uint8_t *f = fam_alg(e.fam) == A128 ? e.u.s128.nonce : fam_alg(e.fam) == A128A ? e.u.s128a.nonce : e.u.s80.nonce;
            if (c.record && load128(f) != e.model)
                c.run->violation("C14", "inc_nonce_field", fam_name(e.fam) + "." + when,
                                 fmt("public nonce field=%s model=%s", hex(f, 16).c_str(), hexn(e.model).c_str()));
            memcpy(e.nonce, f, 16); // C02's ledger uses what the library really holds
        }
    }
    static std::string hexn(u128 v)
    {
        uint8_t b[16];
        store128(b, v);
        return hex(b, 16);
    }

    static void do_sess(Ctx &c, const Op &op)
    {
        int s = (int)(op.u(0) % NSESS);
        Session &S = c.S[s];
        if (S.live) do_close(c, s);
        S = Session();
        S.live = true;
        S.fam = (int)(op.u(1) % NFAM);
        Bytes key = bytes_of(fam_keylen(S.fam), op.u(2) ^ c.salt);
        uint8_t n[16];
        make_nonce(n, op.u(2) ^ c.salt, (unsigned)op.u(3)); // twin runs differ in the nonce too (it is state an object holds); the carry chain is the plan's
        int kp = is_cpp(S.fam) ? (int)(op.u(4) % 2) : 0;
        bool rng_dead = (op.u(2) % 8) == 3; // keys are also made while the system entropy source is failing
        if (rng_dead) { simrng_arm(simrng_cur(), 0, 1); if (c.record) c.run->fault("rng.dead_during_keying"); }
        ep_setup(S.A, S.fam, key, n, kp);
        ep_setup(S.B, S.fam, key, n, is_cpp(S.fam) ? (int)((op.u(4) >> 1) % 2) : 0);
        if (rng_dead) simrng_arm(simrng_cur(), 0, 0);
        if (c.record && kp) c.run->probe("cpp.key_constructor");
        if (c.record) c.run->state(fmt("sess/%d/%u", S.fam, (unsigned)(op.u(3) % 17)));
    }

    static void do_close(Ctx &c, int s)
    {
        Session &S = c.S[s];
        if (!S.live) return;
        Bytes ra, rb;
        ep_free(S.A, c.residue ? &ra : nullptr);
        ep_free(S.B, c.residue ? &rb : nullptr);
        if (c.residue) { c.residue->push_back(ra); c.residue->push_back(rb); }
        S.live = false;
    }

    static void do_send(Ctx &c, const Op &op)
    {
        Session &S = c.S[op.u(0) % NSESS];
        if (!S.live) return;
        Endpoint &A = S.A;
        size_t mlen = (size_t)(op.u(1) % 4096), adlen = (size_t)(op.u(2) % 300);
        Bytes m = bytes_of(mlen, op.u(3) ^ c.salt ^ 1), ad = bytes_of(adlen, op.u(3) ^ 2 ^ c.salt);
        Rng chunker(op.u(3) ^ 77);
        int cls = fam_cls(S.fam);
        sync_explicit_nonce(c, A, "before_send");
        // the packet's own nonce as associated data (a sequence number authenticated in the clear): for incremental
        // sessions the caller may hand over the session's public nonce field itself
        if (cls == INC && (op.u(3) >> 40) % 8 == 0) {
            int alg0 = fam_alg(S.fam);
            const uint8_t *field = alg0 == A128 ? A.u.s128.nonce : alg0 == A128A ? A.u.s128a.nonce : A.u.s80.nonce;
            ad.assign(field, field + 16);
            adlen = 16;
        }
        Packet p;
        p.key = A.key;
        p.ad = ad;
        p.pt = m;
        p.seq = S.sent++;
        // nonce the property says is in use
        uint8_t model_n[16];
        store128(model_n, A.model);
        if (is_cpp(S.fam)) memcpy(p.nonce, model_n, 16); else memcpy(p.nonce, A.nonce, 16);
        bool rng_dead = op.u(4) != 0;
        if (rng_dead) { simrng_arm(simrng_cur(), 0, 1); if (c.record) c.run->fault("rng.dead_during_packet"); }
        p.ct = ep_encrypt(A, m, ad, &chunker, c.page, *c.run);
        if (rng_dead) simrng_arm(simrng_cur(), 0, 0);
        if (c.record) { c.run->fold_bytes(p.ct); c.run->state(fmt("send/%d/%s/%s", cls, lenclass(mlen, S.fam), lenclass(adlen, S.fam))); }
        // C14: packet i equals the one-shot result under N+i (library one-shot as substrate)
        if (cls == INC || is_cpp(S.fam)) {
            Bytes want(mlen + 16);
            size_t wl = 0;
            c_encrypt(cls, fam_alg(S.fam), want.data(), &wl, ptr(m), mlen, ptr(ad), adlen, model_n, A.key.data());
            want.resize(wl);
            bool ok = want == p.ct;
            if (is_cpp(S.fam)) {
                if (ok) { if (!A.calibrated && c.record) c.run->probe("cpp.calibrated"); A.calibrated = true; }
                else if (!A.calibrated) { A.unverifiable = true; if (c.record) c.run->probe("cpp.unverifiable_object"); }
            }
            if (!ok && c.record && (cls == INC || (A.calibrated && !A.unverifiable)))
                c.run->violation("C14", "packet_equals_oneshot_under_N_plus_i", fam_name(S.fam) + ".encrypt",
                                 fmt("packet %d: ciphertext differs from the one-shot under model nonce %s", p.seq, hexn(A.model).c_str()));
        }
        // advance: library did it itself for INC (in start) and C++; harness uses the public helper for C families
        if (cls != INC && !is_cpp(S.fam)) {
            ascon_aead_increment_nonce(A.nonce);
            advance_model(c, A);
            if (c.record && load128(A.nonce) != A.model)
                c.run->violation("C14", "increment_nonce_helper", "ascon_aead_increment_nonce",
                                 fmt("got %s want %s", hex(A.nonce, 16).c_str(), hexn(A.model).c_str()));
        } else {
            advance_model(c, A);
            if (cls == INC) sync_explicit_nonce(c, A, "after_start");
        }
        S.ledger.push_back(p);
        S.pool.push_back((int)S.ledger.size() - 1);
    }

    static const char *lenclass(size_t n, int fam)
    {
        size_t rate = fam_alg(fam) == A128A ? 16 : 8;
        if (n == 0) return "0";
        if (n < rate) return "<";
        if (n == rate) return "=";
        if (n % rate == 0) return "k";
        return n > 256 ? "L" : ">";
    }

    // Ledger oracle: should (key, nonce, ad, x) be accepted, and with which plaintext?
    static const Packet *ledger_lookup(const Session &S, const Bytes &key, const uint8_t n[16], const Bytes &ad, const Bytes &x)
    {
        for (const Packet &p : S.ledger)
            if (p.key == key && memcmp(p.nonce, n, 16) == 0 && p.ad == ad && p.ct == x) return &p;
        return nullptr;
    }

    static void mutate(Ctx &c, int fk, uint64_t fs, Bytes &x, Bytes &ad)
    {
        Rng r(fs);
        switch (fk) {
        case 1: if (x.size() > 16) { size_t b = r.below((x.size() - 16) * 8); x[b / 8] ^= 1u << (b % 8); if (c.record) c.run->fault("net.flip_ct"); } break;
        case 2: if (x.size() >= 16) { size_t b = (x.size() - 16) * 8 + r.below(128); x[b / 8] ^= 1u << (b % 8); if (c.record) c.run->fault("net.flip_tag"); } break;
        case 3: if (!ad.empty()) { size_t b = r.below(ad.size() * 8); ad[b / 8] ^= 1u << (b % 8); if (c.record) c.run->fault("net.flip_ad"); } break;
        case 4: { size_t n = r.chance(1, 2) ? r.below(17) : r.below(x.size() + 1); x.resize(std::min(n, x.size())); if (c.record) c.run->fault("net.truncate"); break; }
        case 5: { size_t n = 1 + r.below(24); for (size_t i = 0; i < n; ++i) x.push_back((uint8_t)r.next()); if (c.record) c.run->fault("net.extend"); break; }
        case 6: { size_t n = 2 + r.below(6); for (size_t i = 0; i < n && !x.empty(); ++i) { size_t b = r.below(x.size() * 8); x[b / 8] ^= 1u << (b % 8); } if (c.record) c.run->fault("net.flip_multi"); break; }
        case 7: if (r.chance(1, 2)) ad.push_back((uint8_t)r.next()); else if (!ad.empty()) ad.pop_back(); if (c.record) c.run->fault("net.ad_length"); break;
        case 8: if (!x.empty()) { x[x.size() - 1] ^= 0x80; if (c.record) c.run->fault("net.flip_last_tag_bit"); } break;
        }
    }

    // Judge one decryption against the ledger.  `stateful` = went through B's session object.
    static bool judge(Ctx &c, Session &S, Endpoint &B, const Bytes &x, const Bytes &ad, int r, size_t mlen_rep,
                      bool wiped, const Bytes &m_out, const char *how)
    {
        int cls = fam_cls(B.fam);
        uint8_t nb[16];
        if (is_cpp(B.fam)) store128(nb, B.model); else memcpy(nb, B.nonce, 16);
        const Packet *hit = ledger_lookup(S, B.key, nb, ad, x);
        bool accept = r >= 0;
        if (!c.record) return accept;
        c.run->fold_u64((uint64_t)(int64_t)(r < 0 ? -1 : 0));
        c.run->fold_bytes(accept ? m_out : Bytes());
        std::string site = fam_name(B.fam) + "." + how;
        // A C++ session object carries its own nonce history: what it accepts after a history is judged for C14 by the
        // caller.  A storm delivery goes through a fresh object under an explicit nonce, so the ledger applies as it is.
        if (is_cpp(B.fam) && strcmp(how, "storm") != 0) return accept;
        if (hit) {
            if (!accept) c.run->violation("C02", "rejects_authentic", site, fmt("clen=%zu adlen=%zu result=%d", x.size(), ad.size(), r));
            else {
                if (m_out != hit->pt) c.run->violation("C02", "wrong_plaintext", site, fmt("clen=%zu accepted but plaintext differs", x.size()));
                if (cls != INC && mlen_rep != hit->pt.size()) c.run->violation("C02", "wrong_length", site, fmt("reported mlen=%zu want %zu", mlen_rep, hit->pt.size()));
                c.run->probe("deliver.accepted");
            }
        } else {
            if (accept) c.run->violation("C02", "accepts_forgery", site, fmt("clen=%zu adlen=%zu result=%d", x.size(), ad.size(), r));
            else {
                c.run->probe(x.size() < 16 ? "deliver.rejected_short" : "deliver.rejected");
                if (cls != INC && !is_cpp(B.fam) && x.size() >= 16 && !wiped) // stated for the one-shot (C) decryption functions
                    c.run->violation("C02", "plaintext_not_wiped", site, fmt("clen=%zu: plaintext buffer holds non-zero bytes after failed one-shot decrypt", x.size()));
            }
        }
        return accept;
    }

    static void do_deliver(Ctx &c, const Op &op)
    {
        Session &S = c.S[op.u(0) % NSESS];
        if (!S.live || S.ledger.empty()) return;
        Endpoint &B = S.B;
        int64_t sel = op.arg(1);
        int idx;
        if (sel < 0 || S.pool.empty()) {
            idx = S.pool.empty() ? (int)(S.ledger.size() - 1) : S.pool.front();
            if (S.pool.empty() && c.record) c.run->fault("net.dup");
        } else {
            idx = S.pool[(size_t)sel % S.pool.size()];
            if ((size_t)sel % S.pool.size() != 0 && c.record) c.run->fault("net.reorder");
        }
        bool consume = op.u(4) == 0;
        if (!consume && c.record) c.run->fault("net.dup_kept");
        const Packet &p = S.ledger[(size_t)idx];
        Bytes x = p.ct, ad = p.ad;
        int fk = (int)(op.u(2) % 9);
        mutate(c, fk, op.u(3), x, ad);
        Rng chunker(op.u(3) ^ 99);
        sync_explicit_nonce(c, B, "before_deliver");
        u128 before = B.model;
        Bytes m_out;
        size_t mlen_rep = 0;
        bool wiped = false;
        g_inc_not_started = false;
        // the system entropy source may be dead while a packet is processed (it only feeds masking randomness):
        // what is accepted, returned and wiped must not depend on it
        bool rng_dead = op.u(5) != 0;
        if (rng_dead) { simrng_arm(simrng_cur(), 0, 1); if (c.record) c.run->fault("rng.dead_during_packet"); }
        int r = ep_decrypt(B, x, ad, m_out, &mlen_rep, &wiped, &chunker, c.page, *c.run);
        if (rng_dead) simrng_arm(simrng_cur(), 0, 0);
        bool inc_started = !g_inc_not_started;
        bool accept = judge(c, S, B, x, ad, r, mlen_rep, wiped, m_out, "deliver");
        int cls = fam_cls(B.fam);
        if (c.record) c.run->state(fmt("dlv/%d/%d/%d/%s", cls, fk, accept, lenclass(x.size() >= 16 ? x.size() - 16 : 0, B.fam)));
        if (cls == INC) {
            if (inc_started) { advance_model(c, B); sync_explicit_nonce(c, B, "after_start"); }
        } else if (is_cpp(B.fam)) {
            // C14 for the C++ objects: +1 after a successful decrypt, unchanged after a failed one.
            // Substrate: the library's own C one-shot decrypt under the model nonce.
            uint8_t nb[16];
            store128(nb, before);
            Bytes tmp(x.size() + 1);
            size_t tl = 0;
            bool c_accepts = x.size() >= 16 && c_decrypt(cls, fam_alg(B.fam), tmp.data(), &tl, ptr(x), x.size(), ptr(ad), ad.size(), nb, B.key.data()) >= 0;
            if (c_accepts && accept) {
                if (!B.calibrated && c.record) c.run->probe("cpp.calibrated");
                B.calibrated = true;
                advance_model(c, B);
                if (c.record) c.run->probe("cpp.decrypt_ok");
            } else if (c_accepts && !accept) {
                // the C function accepts this packet under the model nonce, the object refused it:
                // the nonce stored in the object is not what the property says
                if (c.record && B.calibrated && !B.unverifiable)
                    c.run->violation("C14", "cpp_nonce_after_history", fam_name(B.fam) + ".decrypt",
                                     fmt("packet authentic under model nonce %s (C one-shot accepts) was refused by the object", hexn(before).c_str()));
                B.unverifiable = true;
            } else if (!c_accepts && accept) {
                // accepted although not authentic under the model nonce: nonce drift only if the very same bytes
                // are an encryption the sender made under another nonce; a plain forgery is not C14's business
                bool other = false;
                for (const Packet &q : S.ledger) if (q.key == B.key && q.ad == ad && q.ct == x) other = true;
                if (other && c.record && B.calibrated && !B.unverifiable)
                    c.run->violation("C14", "cpp_nonce_after_history", fam_name(B.fam) + ".decrypt",
                                     fmt("object accepted a packet made under a different nonce than the model nonce %s", hexn(before).c_str()));
                B.unverifiable = true;
            } else if (c.record) c.run->probe("cpp.decrypt_failed");
        } else if (accept) {
            // C families in stream mode: the receiver advances its own nonce after an accepted packet
            ascon_aead_increment_nonce(B.nonce);
            advance_model(c, B);
        }
        if (consume && !S.pool.empty()) {
            auto it = std::find(S.pool.begin(), S.pool.end(), idx);
            if (it != S.pool.end() && fk == 0) S.pool.erase(it);
        }
        // bounded liveness once faults stop: a corrupted delivery followed by a clean retransmit is accepted.
        if (fk != 0 && c.record) c.run->probe("deliver.corrupted");
    }

    static void do_drop(Ctx &c, const Op &op)
    {
        Session &S = c.S[op.u(0) % NSESS];
        if (!S.live || S.pool.empty()) return;
        S.pool.erase(S.pool.begin() + (long)(op.u(1) % S.pool.size()));
        if (c.record) c.run->fault("net.drop");
    }

    static void do_rekey(Ctx &c, const Op &op)
    {
        Session &S = c.S[op.u(0) % NSESS];
        if (!S.live) return;
        int who = (int)(op.u(1) % 3); // 0 A, 1 B, 2 both
        Bytes key = bytes_of(fam_keylen(S.fam), op.u(2) ^ c.salt ^ 9);
        bool null_key = fam_cls(S.fam) == INC && (op.u(2) % 5) == 0; // *_aead_reinit(state, npub, NULL): documented all-zero key
        if (null_key) key.assign(key.size(), 0);
        for (int side = 0; side < 2; ++side) {
            if (who != 2 && who != side) continue;
            Endpoint &E = side == 0 ? S.A : S.B;
            sync_explicit_nonce(c, E, "before_rekey");
            E.key = key;
            if (null_key) {
                int alg = fam_alg(E.fam);
                uint8_t n[16];
                memcpy(n, E.nonce, 16);
                if (alg == A128) ascon128_aead_reinit(&E.u.s128, n, nullptr);
                else if (alg == A128A) ascon128a_aead_reinit(&E.u.s128a, n, nullptr);
                else ascon80pq_aead_reinit(&E.u.s80, n, nullptr);
                if (c.record) c.run->probe("inc.reinit_null_key");
            } else ep_key_objects(E, true);
            E.calibrated = false;
        }
        if (who != 2 && c.record) c.run->fault("net.key_mismatch");
    }

    static void do_nonce(Ctx &c, const Op &op)
    {
        Session &S = c.S[op.u(0) % NSESS];
        if (!S.live) return;
        int who = (int)(op.u(1) % 3);
        int kind = (int)(op.u(2) % 3);
        if (kind == 2 && fam_cls(S.fam) != INC) kind = 0;
        for (int side = 0; side < 2; ++side) {
            if (who != 2 && who != side) continue;
            Endpoint &E = side == 0 ? S.A : S.B;
            u128 want;
            if (kind == 0) {
                uint64_t n = op.u(3);
                want = (u128)n;
                if (is_cpp(E.fam)) E.cpp->set_counter(n);
                else {
                    ascon_aead_set_counter(E.nonce, n);
                    if (c.record && load128(E.nonce) != want)
                        c.run->violation("C14", "set_counter_helper", "ascon_aead_set_counter", fmt("n=%llu got %s", (unsigned long long)n, hex(E.nonce, 16).c_str()));
                    ep_push_nonce(E);
                }
                if (c.record) c.run->probe("nonce.set_counter");
            } else if (kind == 2) {
                // *_aead_reinit(state, NULL, k): documented all-zero nonce
                int alg = fam_alg(E.fam);
                if (alg == A128) ascon128_aead_reinit(&E.u.s128, nullptr, E.key.data());
                else if (alg == A128A) ascon128a_aead_reinit(&E.u.s128a, nullptr, E.key.data());
                else ascon80pq_aead_reinit(&E.u.s80, nullptr, E.key.data());
                memset(E.nonce, 0, 16);
                want = 0;
                if (c.record) c.run->probe("inc.reinit_null_nonce");
            } else {
                size_t len = (size_t)(op.u(3) % 25);
                Bytes nb = bytes_of(len, op.u(4) ^ 0x6e);
                uint8_t full[16];
                memset(full, 0, 16);
                if (len >= 16) memcpy(full, nb.data(), 16);
                else if (len) memcpy(full + 16 - len, nb.data(), len);
                want = load128(full);
                if (is_cpp(E.fam)) {
                    GuardBuf g(len, 1, false);
                    g.set(nb);
                    E.cpp->set_nonce(len ? g.p : nullptr, len);
                    if (len == 16) { E.calibrated = false; E.unverifiable = false; }
                } else {
                    memcpy(E.nonce, full, 16);
                    ep_push_nonce(E);
                }
                if (c.record) c.run->probe(fmt("nonce.set_nonce.%s", len < 16 ? "short" : len == 16 ? "exact" : "long"));
            }
            E.model = want;
        }
        if (who != 2 && c.record) c.run->fault("net.nonce_desync");
    }

    static void do_sync(Ctx &c, const Op &op)
    {
        // datagram discipline: the receiver sets its nonce from the header of the packet it will process next
        Session &S = c.S[op.u(0) % NSESS];
        if (!S.live || S.pool.empty()) return;
        const Packet &p = S.ledger[(size_t)S.pool.front()];
        Endpoint &B = S.B;
        memcpy(B.nonce, p.nonce, 16);
        B.model = load128(p.nonce);
        if (is_cpp(B.fam)) { B.cpp->set_nonce(p.nonce, 16); }
        else ep_push_nonce(B);
        if (B.key != p.key) { B.key = p.key; ep_key_objects(B, true); if (is_cpp(B.fam)) B.cpp->set_nonce(p.nonce, 16); else ep_push_nonce(B); }
        if (c.record) c.run->probe("nonce.datagram_sync");
    }

    // Associated data of 2^32 + 11 bytes in a single call (one-shot, SIV, ISAP and masked families).  The data is an
    // anonymous private mapping (zero pages; one page is committed when a byte is changed).  The packet made over it must
    // be refused once one AD byte beyond the first 2^32 bytes' worth of "length mod 2^32" is changed.
    static void do_hugead(Ctx &c, const Op &op)
    {
        static const int classes[4] = {ONE, SIV, ISAP, MASK};
        int cls = classes[(op.u(0) % 12) / 3], alg = (int)(op.u(0) % 3);
        size_t adlen = ((size_t)1 << 32) + 11;
        uint8_t *ad = (uint8_t *)mmap(0, adlen + 4096, PROT_READ | PROT_WRITE, MAP_PRIVATE | MAP_ANONYMOUS | MAP_NORESERVE, -1, 0);
        if (ad == MAP_FAILED) { if (c.record) c.run->probe("hugead.mmap_failed"); return; }
        Bytes key = bytes_of(alg == A80 ? 20 : 16, op.u(1) ^ c.salt), m = bytes_of(13, op.u(1) ^ 5);
        uint8_t n[16], ct[13 + 16], pt[13];
        fill_bytes(n, 16, op.u(1) ^ 7);
        size_t clen = 0, mlen = 0;
        int fam = cls * 3 + alg;
        int r;
        if (cls == MASK) {
            union { ascon_masked_key_128_t k128; ascon_masked_key_160_t k160; } mk;
            if (alg == A80) ascon_masked_key_160_init(&mk.k160, key.data()); else ascon_masked_key_128_init(&mk.k128, key.data());
            if (alg == A128) ascon128_masked_aead_encrypt(ct, &clen, m.data(), 13, ad, adlen, n, &mk.k128);
            else if (alg == A128A) ascon128a_masked_aead_encrypt(ct, &clen, m.data(), 13, ad, adlen, n, &mk.k128);
            else ascon80pq_masked_aead_encrypt(ct, &clen, m.data(), 13, ad, adlen, n, &mk.k160);
            ad[12345] ^= 0x10;
            if (alg == A128) r = ascon128_masked_aead_decrypt(pt, &mlen, ct, clen, ad, adlen, n, &mk.k128);
            else if (alg == A128A) r = ascon128a_masked_aead_decrypt(pt, &mlen, ct, clen, ad, adlen, n, &mk.k128);
            else r = ascon80pq_masked_aead_decrypt(pt, &mlen, ct, clen, ad, adlen, n, &mk.k160);
            if (alg == A80) ascon_masked_key_160_free(&mk.k160); else ascon_masked_key_128_free(&mk.k128);
        } else {
            c_encrypt(cls, alg, ct, &clen, m.data(), 13, ad, adlen, n, key.data());
            ad[12345] ^= 0x10;
            r = c_decrypt(cls, alg, pt, &mlen, ct, clen, ad, adlen, n, key.data());
        }
        munmap(ad, adlen + 4096);
        if (c.record) {
            c.run->fold(ct, 29);
            c.run->fold_u64((uint64_t)(int64_t)(r < 0 ? -1 : 0));
            c.run->fault("len.associated_data_of_4GiB_plus");
            c.run->state(fmt("hugead/%d", fam));
            if (clen != 29) c.run->violation("C02", "encrypt_length", fam_name(fam) + ".huge_ad", fmt("reported clen=%zu for mlen=13", clen));
            if (r >= 0) c.run->violation("C02", "accepts_forgery", fam_name(fam) + ".huge_ad", fmt("associated data of 2^32+11 bytes: a packet is accepted after AD byte 12345 was changed (result %d)", r));
            else c.run->probe("hugead.rejected");
        }
    }

    // Bit-flip storm: one packet re-delivered once per single-bit flip of ct||tag / ad / nonce / key,
    // through fresh receiver objects (the stateful session object is not disturbed).
    static void do_storm(Ctx &c, const Op &op)
    {
        Session &S = c.S[op.u(0) % NSESS];
        if (!S.live || S.ledger.empty()) return;
        const Packet &p = S.ledger[op.u(1) % S.ledger.size()];
        if (p.ct.size() > 64 + 16 && !c.run->thorough) return;
        if (p.ct.size() > 200 + 16) return;
        int what = (int)(op.u(2) % 4);
        Rng r(op.u(3));
        size_t nbits = what == 0 ? p.ct.size() * 8 : what == 1 ? p.ad.size() * 8 : what == 2 ? 128 : p.key.size() * 8;
        if (nbits == 0) return;
        size_t budget = c.run->thorough ? nbits : std::min<size_t>(nbits, 48);
        if (c.record) c.run->fault(fmt("net.storm.%s", what == 0 ? "ct_tag" : what == 1 ? "ad" : what == 2 ? "nonce" : "key"));
        for (size_t i = 0; i < budget; ++i) {
            size_t bit = budget == nbits ? i : r.below(nbits);
            Bytes x = p.ct, ad = p.ad, key = p.key;
            uint8_t n[16];
            memcpy(n, p.nonce, 16);
            if (what == 0) x[bit / 8] ^= 1u << (bit % 8);
            else if (what == 1) ad[bit / 8] ^= 1u << (bit % 8);
            else if (what == 2) n[bit / 8] ^= 1u << (bit % 8);
            else key[bit / 8] ^= 1u << (bit % 8);
            Endpoint E;
            ep_setup(E, S.fam, key, n, is_cpp(S.fam) ? (int)(op.u(4) % 2) : 0);
            Bytes m_out;
            size_t ml = 0;
            bool wiped = false;
            int rr = ep_decrypt(E, x, ad, m_out, &ml, &wiped, nullptr, c.page, *c.run);
            judge(c, S, E, x, ad, rr, ml, wiped, m_out, "storm");
            ep_free(E, nullptr);
            if (c.record) c.run->probe("storm.deliveries");
        }
    }

    void pass(const Plan &plan, Run &run, uint64_t salt, std::vector<Bytes> *res, bool record)
    {
        g_ad_is_own_nonce = true;
        std::unique_ptr<Ctx> cp(new Ctx());
        Ctx &c = *cp;
        c.run = &run;
        c.salt = salt;
        c.page = plan.knob("page", 0) != 0;
        c.record = record;
        c.residue = res;
        // the entropy tape is the SAME in both twin executions: what must not survive a free is what the object was given
        // or derived from it (keys, nonces, messages); an object that is re-masked or refilled from fresh entropy while
        // it is cleared holds bytes that depend on the tape only, and those are equal in the twins
        (void)salt;
        simrng_reset(simrng_cur(), plan.digest(), SIMRNG_RANDOM);
        g_mask_extract_bad = false;
        g_start_nonce_bad = 0;
        int idx = 0;
        for (const Op &op : plan.ops) {
            run.cur_op = idx++;
            if (op.name.compare(0, 5, "knob.") == 0) continue;
            if (record) { run.ops_done++; run.task((int64_t)(op.u(0) % NSESS)); }
            if (op.name == "sess") do_sess(c, op);
            else if (op.name == "send") do_send(c, op);
            else if (op.name == "deliver") do_deliver(c, op);
            else if (op.name == "drop") do_drop(c, op);
            else if (op.name == "rekey") do_rekey(c, op);
            else if (op.name == "nonce") do_nonce(c, op);
            else if (op.name == "sync") do_sync(c, op);
            else if (op.name == "storm") do_storm(c, op);
            else if (op.name == "hugead") do_hugead(c, op);
            else if (op.name == "close") do_close(c, (int)(op.u(0) % NSESS));
            // set by ep_key_objects when a re-randomised masked key no longer extracts to its key: reported for the operation that keyed it
            if (g_start_nonce_bad) {
                if (c.record) c.run->violation("C14", "inc_start_advances_nonce", fam_name(g_start_nonce_bad - 1) + ".start@" + op.name, "right after start() the public nonce field is not the value before the call plus one");
                g_start_nonce_bad = 0;
            }
            if (g_mask_extract_bad) { if (c.record) c.run->violation("C10", "mask_then_extract_returns_key", "masked_key@" + op.name, "a masked key (freshly made or re-randomised) does not extract to the key it was made from"); g_mask_extract_bad = false; }
        }
        for (int s = 0; s < NSESS; ++s) do_close(c, s);
    }

    void exec(const Plan &plan, Run &run) override
    {
        bool twin = plan.knob("twin", 0) != 0;
        std::vector<Bytes> r1, r2;
        pass(plan, run, 0, twin ? &r1 : nullptr, true);
        if (twin) {
            pass(plan, run, 0x7e57ab1e5ec2e7ULL, &r2, false);
            for (size_t i = 0; i < std::min(r1.size(), r2.size()); ++i) {
                run.probe("twin.free_compared");
                if (r1[i] != r2[i]) {
                    size_t d = 0;
                    while (d < r1[i].size() && d < r2[i].size() && r1[i][d] == r2[i][d]) ++d;
                    run.violation("C13", "residue_after_free", fmt("channel_endpoint_size_%zu", r1[i].size()),
                                  fmt("endpoint object bytes after free/destructor differ between twin-secret runs at offset %zu of %zu", d, r1[i].size()));
                }
            }
        }
    }
};

int main(int argc, char **argv)
{
    ChannelWorld w;
    return worker_main(argc, argv, w);
}
