// World `prng`: a device with an entropy source (wrapped getrandom), RAM holding an
// ascon_random_state_t and one non-volatile page behind ascon_storage_t (C15;
// feeds C09, C12, C13).  Faults: EINTR/EAGAIN bursts, permanent source failure,
// storage read/write errors, short and torn writes, power loss.
#define ASIM_MAIN 1
#include "core/asim.h"
#include "seams/simrng.h"
#include "models/ascon_ref.h"
#include <ascon/random.h>
#include <ascon/storage.h>
#include <ascon/permutation.h>
#include <csetjmp>
#include <memory>

using namespace asim;

static const size_t RESEED_LIMIT = 16384;

struct Flash {
    ascon_storage_t st; // must be first: callbacks cast back
    Bytes mem;
    // fault script for the next callback invocations
    int read_fault = 0;   // 0 none, 1 error, 2 short
    int write_fault = 0;  // 0 none, 1 error, 2 short, 3 torn + power loss
    size_t fault_arg = 0;
    jmp_buf *power = nullptr;
    // observations
    int reads = 0, writes = 0;
    int last_read_ret = 0, last_write_ret = 0;
    const uint64_t *source_calls = nullptr; // requests made to the system entropy source so far (owned by the world)
    bool first_write_seen = false;
    uint64_t source_calls_at_first_write = 0; // ... when the first write callback of the current operation arrived
    size_t rbytes = 0, wbytes = 0;  // bytes transferred by callbacks that returned the full count
    int rfaulted = 0, wfaulted = 0; // callbacks that were made to fail or fall short
    bool out_of_range = false;
    Run *run = nullptr;
    bool record = false;
};

static int flash_read(const ascon_storage_t *s, size_t off, unsigned char *data, size_t size)
{
    Flash *f = (Flash *)s;
    f->reads++;
    if (off + size > f->mem.size()) { f->out_of_range = true; size = off < f->mem.size() ? f->mem.size() - off : 0; }
    if (f->read_fault) f->rfaulted++;
    if (f->read_fault == 1) { if (f->record) f->run->fault("nv.read_err"); return f->last_read_ret = -1; }
    if (f->read_fault == 2) {
        size_t n = size ? f->fault_arg % size : 0;
        memcpy(data, f->mem.data() + off, n);
        if (f->record) f->run->fault("nv.read_short");
        return f->last_read_ret = (int)n;
    }
    if (size) memcpy(data, f->mem.data() + off, size);
    f->rbytes += size;
    return f->last_read_ret = (int)size;
}
static int flash_write(const ascon_storage_t *s, size_t off, const unsigned char *data, size_t size, int erase)
{
    Flash *f = (Flash *)s;
    (void)erase;
    f->writes++;
    if (!f->first_write_seen) { f->first_write_seen = true; f->source_calls_at_first_write = f->source_calls ? *f->source_calls : 0; }
    if (off + size > f->mem.size()) { f->out_of_range = true; size = off < f->mem.size() ? f->mem.size() - off : 0; }
    if (f->write_fault) f->wfaulted++;
    if (f->write_fault == 1) { if (f->record) f->run->fault("nv.write_err"); return f->last_write_ret = -1; }
    if (f->write_fault == 2 || f->write_fault == 3) {
        size_t n = size ? f->fault_arg % size : 0;
        if (data && n) memcpy(f->mem.data() + off, data, n);
        if (f->write_fault == 3 && f->power) {
            if (f->record) { f->run->fault("nv.torn_write"); f->run->fault("nv.power_loss"); }
            longjmp(*f->power, 1); // power is gone: nothing after this instant happens
        }
        if (f->record) f->run->fault("nv.write_short");
        return f->last_write_ret = (int)n;
    }
    if (data && size) memcpy(f->mem.data() + off, data, size);
    f->wbytes += size;
    return f->last_write_ret = (int)size;
}

struct Event {          // one observable output of the device
    int op;
    int kind;           // 0 fetch, 1 ascon_random()
    uint64_t epoch;     // generator instance
    uint64_t tape_before; // tape bytes consumed before the call began
    uint64_t tape_after;  // ... and after it returned
    Bytes out;
    bool due = false;     // fetch: 16384 bytes or more had been produced since the last reseed when the call began
};
struct Draw { uint64_t begin, end, epoch; }; // tape range consumed by one operation of one generator instance

struct PrngWorld : World {
    const char *name() const override { return "prng"; }
    bool selftest(std::string &err) override { return ascon_ref::selftest(err); }

    void gen(Rng &r, Plan &pl, bool thorough) override
    {
        if (getenv("ASIM_TWIN")) pl.add("knob.twin", {1});
        int tape = r.chance(4, 5) ? SIMRNG_RANDOM : (int)r.below(7);
        pl.add("knob.tape", {tape, (int64_t)(r.next() >> 1)});
        pl.add("knob.flash", {r.pickv({32, 32, 64, 4096, 0, 16, 31}), r.pickv({0, 32, 256}), r.pickv({0, 4096})});
        pl.add("knob.flip", {(int64_t)(r.next() >> 1)});
        bool faulty = !r.chance(1, 4);
        int nops = thorough ? 16 + (int)r.below(48) : 8 + (int)r.below(32);
        bool limit_bias = r.chance(1, 3);
        pl.add("boot", {(int64_t)r.below(2), 0, 0, 0, 0});
        for (int i = 0; i < nops; ++i) {
            unsigned c = (unsigned)r.below(100);
            int64_t tr = faulty && r.chance(1, 6) ? 1 + (int64_t)r.below(8) : 0;
            int64_t pf = faulty && r.chance(1, 8) ? 1 + (int64_t)r.below(3) : 0;
            int64_t nvf = faulty && r.chance(1, 4) ? 1 + (int64_t)r.below(5) : r.chance(1, 25) ? 14 + (int64_t)r.below(2) : 0;
            int64_t nva = (int64_t)r.below(33);
            if (c < 45) {
                int64_t n = limit_bias ? r.pickv({16383, 16384, 16385, 1, 1, 0, 8192, 8191, 40000, 32})
                                       : r.pickv({0, 1, 7, 8, 9, 16, 31, 32, 100, 4096, 16383, 16384, 16385, 40000});
                pl.add("fetch", {n, tr, pf});
            } else if (c < 58) pl.add("feed", {r.pickv({0, 1, 7, 8, 9, 16, 32, 100}), (int64_t)(r.next() >> 1)});
            else if (c < 66) pl.add("reseed", {tr, pf});
            else if (c < 76) pl.add("save", {nvf, nva, tr, pf});
            else if (c < 84) pl.add("load", {nvf, nva, tr, pf});
            else if (c < 91) pl.add("grandom", {r.pickv({0, 1, 16, 17, 32, 33, 100, 1000}), tr, pf});
            else if (c < 96) pl.add("boot", {(int64_t)r.below(2), nvf == 5 ? 0 : nvf, nva, tr, pf});
            else pl.add("free", {});
        }
        pl.add("fetch", {32, 0, 0});
        pl.add("free", {});
    }

    struct Ctx {
        Run *run;
        bool record;
        uint64_t salt;
        simrng_t rng;
        Flash flash;
        ascon_random_state_t *ram;
        bool live = false;
        uint64_t epoch = 0;
        size_t model_counter = 0;
        std::vector<Event> events;
        std::vector<Draw> draws;
        std::vector<std::pair<int, uint64_t>> feeds; // (op index, epoch) of non-empty feeds
        int flip_feed_op = -1;                        // twin: flip one byte of this feed
        int flip_flash_op = -1;                       // twin: flip one byte of the stored seed right before this load
        unsigned flip_flash_byte = 5;                 // ... which of its 32 bytes (chosen by the plan)
        std::vector<std::pair<int, uint64_t>> loads;   // (op index, epoch) of loads whose read callback delivered a full seed
        std::vector<Bytes> *residue = nullptr;
        jmp_buf jb;
    };

    static void arm(Ctx &c, int64_t tr, int64_t pf)
    {
        tr %= 9;
        pf %= 4;
        // pf: 0 none, 1 every call fails, 2 first call fails, 3 second call fails
        simrng_arm(&c.rng, (int)tr, pf == 0 ? 0 : pf == 1 ? 1 : -(int)(pf - 1));
    }
    static void disarm(Ctx &c) { simrng_arm(&c.rng, 0, 0); }

    static void count_rng_faults(Ctx &c, const simrng_t &before, bool instance_op = true)
    {
        if (instance_op && c.rng.pos > before.pos) c.draws.push_back(Draw{before.pos, c.rng.pos, c.epoch});
        if (!c.record) return;
        if (c.rng.eintr > before.eintr) c.run->fault("rng.eintr", c.rng.eintr - before.eintr);
        if (c.rng.eagain > before.eagain) c.run->fault("rng.eagain", c.rng.eagain - before.eagain);
        if (c.rng.perm > before.perm) c.run->fault("rng.perm_fail", c.rng.perm - before.perm);
        if ((c.rng.eintr > before.eintr || c.rng.eagain > before.eagain) && c.rng.ok_calls > before.ok_calls) c.run->probe("rng.retry_then_success");
    }

    // Oracle 3: the state has just been through zero-the-rate-then-permute.
    static void check_rate_zero(Ctx &c, const char *after)
    {
        if (!c.record || !c.live) return;
        // p^-1 is the model's; it says something about the generator only where the library's p is the model's p.
        // A library permutation that differs is a matter for the output-comparing checks (C09, C06, C10), not for C15.
        if (!ascon_ref::lib_agrees(0)) { c.run->probe("rate_zero.skipped_library_permutation_differs"); return; }
        uint8_t b[40];
        ascon_acquire(&c.ram->xof.state);
        ascon_extract_bytes(&c.ram->xof.state, b, 0, 40);
        ascon_release(&c.ram->xof.state);
        ascon_ref::permute_inverse(b, 0);
        bool z = true;
        for (int i = 0; i < 8; ++i) if (b[i]) z = false;
        c.run->probe("rate_zero.checked");
        if (!z) c.run->violation("C15", "forward_security_rate_zero", after,
                                 fmt("p^-1(state) has non-zero rate bytes %s after %s", hex(b, 8).c_str(), after));
    }

    static void do_free(Ctx &c)
    {
        if (!c.live) return;
        ascon_random_free(c.ram);
        if (c.residue) {
            Bytes left((uint8_t *)c.ram, (uint8_t *)c.ram + sizeof(ascon_random_state_t));
            c.residue->push_back(left);
            if (c.record) {
                // History independence: a copy of the freed bytes goes through init + free with nothing in between (on
                // a private entropy tape, so the run's own tape is not disturbed).  A byte that differs afterwards was
                // left over from what this generator did in its life (bytes produced, phase of the sponge).
                simrng_t tmp;
                memset(&tmp, 0, sizeof tmp);
                simrng_reset(&tmp, 0xBA5E11AEull, SIMRNG_RANDOM);
                simrng_t *prev = simrng_cur();
                simrng_use(&tmp);
                ascon_random_state_t *scratch = (ascon_random_state_t *)aalloc(64, sizeof(ascon_random_state_t));
                memcpy(scratch, left.data(), left.size());
                ascon_random_init(scratch);
                ascon_random_free(scratch);
                simrng_use(prev == &tmp ? nullptr : prev);
                c.run->probe("twin.free_vs_unused_object");
                if (memcmp(scratch, left.data(), left.size()) != 0) {
                    size_t d = 0;
                    while (d < left.size() && ((uint8_t *)scratch)[d] == left[d]) ++d;
                    c.run->violation("C13", "residue_depends_on_history", "ascon_random_state_t",
                                     fmt("byte %zu of %zu of the freed generator is 0x%02x after its history and 0x%02x after init+free alone", d, left.size(), left[d], ((uint8_t *)scratch)[d]));
                }
                free(scratch);
            }
        }
        c.live = false;
    }

    static void power_loss(Ctx &c)
    {
        // RAM is gone; whatever the frames above were doing never completes
        memset(c.ram, 0x5a, sizeof(ascon_random_state_t));
        c.live = false;
        c.epoch++;
        c.flash.write_fault = c.flash.read_fault = 0;
        disarm(c);
    }

    static bool healthy(const simrng_t &before, const simrng_t &after) { return after.perm == before.perm; }

    static void set_nv_fault(Ctx &c, int64_t nvf, int64_t nva)
    {
        nvf %= 6;
        c.flash.read_fault = nvf == 1 ? 1 : nvf == 2 ? 2 : 0;
        c.flash.write_fault = nvf == 3 ? 1 : nvf == 4 ? 2 : nvf == 5 ? 3 : 0;
        c.flash.fault_arg = (size_t)nva;
    }

    static void status_check(Ctx &c, const char *what, int got, bool want_nonzero)
    {
        if (!c.record) return;
        c.run->fold_u64((uint64_t)(int64_t)got);
        if ((got != 0) != want_nonzero)
            c.run->violation("C15", "status", what, fmt("%s returned %d but the system source was %s for that call", what, got, want_nonzero ? "healthy" : "failing"));
    }

    static void do_boot(Ctx &c, const Op &op)
    {
        if (c.live) do_free(c);
        c.epoch++;
        arm(c, op.arg(3), op.arg(4));
        simrng_t before = c.rng;
        int ok = ascon_random_init(c.ram);
        c.live = true;
        c.model_counter = 0;
        status_check(c, "ascon_random_init", ok, healthy(before, c.rng));
        if (c.record && c.rng.calls == before.calls)
            c.run->violation("C15", "init_draws_entropy", "ascon_random_init", "initialisation made no call to the system source");
        count_rng_faults(c, before);
        disarm(c);
        check_rate_zero(c, "init");
        if (c.record) c.run->state(fmt("boot/%d/%d", ok != 0, (int)(op.u(0) & 1)));
        if (op.u(0) & 1) {
            Op l("load", {op.arg(1), op.arg(2), 0, 0});
            do_load(c, l);
        }
    }

    // Where inside a fetch the system source is asked - before the first output byte is written or after - is seen
    // from the source's side: the output buffer still holds its fill pattern, or it does not.
    struct DrawWatch { const uint8_t *out; size_t n; int before, after; };
    static void on_draw(void *ctx)
    {
        DrawWatch *w = (DrawWatch *)ctx;
        size_t k = std::min<size_t>(w->n, 32);
        bool untouched = true;
        for (size_t i = 0; i < k; ++i) if (w->out[i] != 0xA5) untouched = false;
        if (untouched) w->before++; else w->after++;
    }

    static void do_fetch(Ctx &c, const Op &op)
    {
        if (!c.live) return;
        size_t n = (size_t)(op.u(0) % 50000);
        arm(c, op.arg(1), op.arg(2));
        simrng_t before = c.rng;
        GuardBuf out(n, (unsigned)n, false); // filled with 0xA5
        DrawWatch w{out.p, n, 0, 0};
        c.rng.on_call = on_draw;
        c.rng.on_call_ctx = &w;
        ascon_random_fetch(c.ram, out.p, n);
        c.rng.on_call = nullptr;
        bool drew = c.rng.calls > before.calls;
        bool drew_first = drew && w.before > 0; // entropy was requested before any output of this call existed
        bool due_at_start = n >= 1 && c.model_counter >= RESEED_LIMIT;
        if (c.record) {
            if (!out.intact()) c.run->violation("C12", "canary", "ascon_random_fetch", "output canary damaged");
            c.run->fold(out.p, n);
            // Oracle 4: reseed once 16384 caller-visible bytes were produced since the last (re)seed
            if (n >= 1 && c.model_counter >= RESEED_LIMIT) {
                c.run->probe("reseed_limit.reached");
                if (!drew)
                    c.run->violation("C15", "reseed_after_limit", "ascon_random_fetch",
                                     fmt("%zu bytes produced since the last reseed and a fetch of %zu bytes made no call to the system source", c.model_counter, n));
                else if (!drew_first)
                    c.run->violation("C15", "reseed_after_limit", "ascon_random_fetch",
                                     fmt("%zu bytes produced since the last reseed and a fetch of %zu bytes asked the system source only after it had produced output", c.model_counter, n));
            }
            c.run->state(fmt("fetch/%s/%d/%d", n == 0 ? "0" : n < 8 ? "<8" : n < 16 ? "<16" : n < RESEED_LIMIT ? "mid" : n == RESEED_LIMIT ? "=L" : ">L", drew, c.model_counter >= RESEED_LIMIT));
        }
        // bytes produced since entropy was last drawn: a draw after the output (a generator may reseed as soon as the
        // limit is reached instead of at the start of the next fetch) leaves none, a draw before it leaves this output
        if (drew && w.after > 0) { c.model_counter = 0; if (c.record) c.run->probe("fetch.drew_after_output"); }
        else if (drew) c.model_counter = n;
        else c.model_counter += n;
        c.events.push_back(Event{c.run->cur_op, 0, c.epoch, before.pos, c.rng.pos, Bytes(out.p, out.p + n), due_at_start && drew_first});
        count_rng_faults(c, before);
        disarm(c);
        check_rate_zero(c, "fetch");
    }

    static void do_feed(Ctx &c, const Op &op)
    {
        if (!c.live) return;
        size_t n = (size_t)(op.u(0) % 300);
        Bytes e = bytes_of(n, op.u(1) ^ c.salt);
        if (n && c.flip_feed_op == c.run->cur_op) e[(size_t)(op.u(1) % n)] ^= 0x10;
        GuardBuf in(n, 3, false);
        in.set(e);
        ascon_random_feed(c.ram, n ? in.p : nullptr, n);
        if (n) c.feeds.push_back({c.run->cur_op, c.epoch});
        if (c.record) c.run->state(fmt("feed/%s", n == 0 ? "0" : n < 8 ? "<8" : n == 8 ? "=8" : ">8"));
        check_rate_zero(c, "feed");
    }

    static void do_reseed(Ctx &c, const Op &op)
    {
        if (!c.live) return;
        arm(c, op.arg(0), op.arg(1));
        simrng_t before = c.rng;
        int ok = ascon_random_reseed(c.ram);
        status_check(c, "ascon_random_reseed", ok, healthy(before, c.rng));
        if (c.record && c.rng.calls == before.calls)
            c.run->violation("C15", "reseed_draws_entropy", "ascon_random_reseed", "explicit reseed made no call to the system source");
        c.model_counter = 0;
        count_rng_faults(c, before);
        disarm(c);
        check_rate_zero(c, "reseed");
    }

    static void do_save(Ctx &c, const Op &op)
    {
        if (!c.live) return;
        set_nv_fault(c, op.arg(0), op.arg(1));
        arm(c, op.arg(2), op.arg(3));
        simrng_t before = c.rng;
        int w0 = c.flash.writes;
        c.flash.wbytes = 0;
        c.flash.wfaulted = 0;
        c.flash.source_calls = &c.rng.calls;
        c.flash.first_write_seen = false;
        int nullp = (int)(op.u(0) % 16 >= 14 ? op.u(0) % 16 - 13 : 0); // 1: NULL storage, 2: NULL state (documented: -1)
        if (nullp) { c.flash.write_fault = c.flash.read_fault = 0; }
        c.flash.power = &c.jb;
        if (setjmp(c.jb)) { power_loss(c); return; }
        int r = ascon_random_save_seed(nullp == 2 ? nullptr : c.ram, nullp == 1 ? nullptr : &c.flash.st);
        c.flash.power = nullptr;
        bool drew = c.rng.calls > before.calls;
        // The seed handed to the storage is generator output like any other: it counts towards the 16384 bytes, and if
        // the generator was due for fresh entropy the source must have been asked before the seed left the generator.
        bool produced = c.flash.first_write_seen;
        bool drew_before_write = produced && c.flash.source_calls_at_first_write > before.calls;
        if (c.record && produced && c.model_counter >= RESEED_LIMIT) {
            c.run->probe("reseed_limit.reached_at_save");
            if (!drew_before_write)
                c.run->violation("C15", "reseed_after_limit", "ascon_random_save_seed",
                                 fmt("%zu bytes produced since the last reseed and save_seed handed a seed to the storage without asking the system source first", c.model_counter));
        }
        // whether a draw came before or after the seed was squeezed cannot be seen from outside (only that it came before
        // the seed reached the storage), so a draw anywhere in the call counts as "nothing produced since"
        if (drew) c.model_counter = 0;
        else if (produced) c.model_counter += ASCON_RANDOM_SAVED_SEED_SIZE;
        if (c.record) {
            c.run->fold_u64((uint64_t)(int64_t)r);
            bool too_small = nullp || c.flash.st.size < ASCON_RANDOM_SAVED_SEED_SIZE;
            // "saved" = the storage took a whole seed and none of its callbacks was made to fail, in however many calls
            bool wrote = c.flash.writes > w0 && c.flash.wfaulted == 0 && c.flash.wbytes >= ASCON_RANDOM_SAVED_SEED_SIZE;
            // documented: non-zero = saved, zero = storage failed, -1 = invalid parameters
            int want = too_small ? -1 : wrote ? 1 : 0;
            bool ok = too_small ? r == -1 : wrote ? (r != 0 && r != -1) : r == 0;
            if (!ok) c.run->violation("C15", "status", "ascon_random_save_seed",
                                      fmt("returned %d, expected %s (%s, storage size %zu, %d write callbacks of which %d were made to fail, %zu bytes taken)", r, want == -1 ? "-1" : want ? "non-zero" : "0",
                                          nullp == 1 ? "NULL storage" : nullp == 2 ? "NULL state" : "valid pointers", c.flash.st.size, c.flash.writes - w0, c.flash.wfaulted, c.flash.wbytes));
            if (too_small && c.flash.writes > w0) c.run->violation("C12", "storage_bounds", "ascon_random_save_seed", "wrote to a storage region smaller than the seed");
            if (nullp) c.run->probe("status.null_parameter");
            c.run->state(fmt("save/%d/%d", (int)(op.u(0) % 6), want));
        }
        count_rng_faults(c, before);
        c.flash.write_fault = c.flash.read_fault = 0;
        disarm(c);
        // (C15 names init, fetch, feed and reseed for the zero-the-rate-then-permute step; save and load are not judged for it)
    }

    static void do_load(Ctx &c, const Op &op)
    {
        if (!c.live) return;
        set_nv_fault(c, op.arg(0), op.arg(1));
        arm(c, op.arg(2), op.arg(3));
        simrng_t before = c.rng;
        int r0 = c.flash.reads;
        c.flash.rbytes = 0;
        c.flash.rfaulted = 0;
        int nullp = (int)(op.u(0) % 16 >= 14 ? op.u(0) % 16 - 13 : 0);
        if (nullp) { c.flash.write_fault = c.flash.read_fault = 0; }
        c.flash.power = &c.jb;
        if (setjmp(c.jb)) { power_loss(c); return; }
        if (c.flip_flash_op == c.run->cur_op && c.flash.mem.size() >= 32) c.flash.mem[c.flip_flash_byte % 32] ^= 0x20;
        int r = ascon_random_load_seed(nullp == 2 ? nullptr : c.ram, nullp == 1 ? nullptr : &c.flash.st);
        c.flash.power = nullptr;
        if (c.rng.calls > before.calls) c.model_counter = 0;
        if (!nullp && c.flash.reads > r0 && c.flash.rfaulted == 0 && c.flash.rbytes >= ASCON_RANDOM_SAVED_SEED_SIZE && c.flash.st.size >= ASCON_RANDOM_SAVED_SEED_SIZE)
            c.loads.push_back({c.run->cur_op, c.epoch});
        if (c.record) {
            c.run->fold_u64((uint64_t)(int64_t)r);
            bool too_small = nullp || c.flash.st.size < ASCON_RANDOM_SAVED_SEED_SIZE;
            bool got = c.flash.reads > r0 && c.flash.rfaulted == 0 && c.flash.rbytes >= ASCON_RANDOM_SAVED_SEED_SIZE;
            if (nullp) c.run->probe("status.null_parameter");
            int want = too_small ? -1 : got ? 1 : 0;
            bool ok = too_small ? r == -1 : got ? (r != 0 && r != -1) : r == 0;
            if (!ok) c.run->violation("C15", "status", "ascon_random_load_seed",
                                      fmt("returned %d, expected %s (%s, storage size %zu, %d read callbacks of which %d were made to fail, %zu bytes delivered)", r, want == -1 ? "-1" : want ? "non-zero" : "0",
                                          nullp == 1 ? "NULL storage" : nullp == 2 ? "NULL state" : "valid pointers", c.flash.st.size, c.flash.reads - r0, c.flash.rfaulted, c.flash.rbytes));
            c.run->state(fmt("load/%d/%d", (int)(op.u(0) % 6), want));
        }
        count_rng_faults(c, before);
        c.flash.write_fault = c.flash.read_fault = 0;
        disarm(c);
    }

    static void do_grandom(Ctx &c, const Op &op)
    {
        size_t n = (size_t)(op.u(0) % 5000);
        arm(c, op.arg(1), op.arg(2));
        simrng_t before = c.rng;
        GuardBuf out(n, 1, false);
        int ok = ascon_random(out.p, n);
        status_check(c, "ascon_random", ok, healthy(before, c.rng));
        if (c.record) {
            if (!out.intact()) c.run->violation("C12", "canary", "ascon_random", "output canary damaged");
            c.run->fold(out.p, n);
            if (c.rng.calls == before.calls) c.run->violation("C15", "random_draws_entropy", "ascon_random", "made no call to the system source");
        }
        // its output depends on the bytes drawn during the call itself
        c.events.push_back(Event{c.run->cur_op, 1, 0, before.pos, c.rng.pos, Bytes(out.p, out.p + n)});
        count_rng_faults(c, before, false);
        disarm(c);
    }

    // One complete execution of the plan. flip_pos: tape position to flip (or ~0).
    void pass(const Plan &plan, Run &run, bool record, uint64_t salt, uint64_t flip_pos, int flip_feed_op, int flip_flash_op, std::vector<std::pair<int, uint64_t>> *loads,
              std::vector<Event> &events, std::vector<std::pair<int, uint64_t>> *feeds, uint64_t *tape_used, std::vector<Draw> *draws,
              std::vector<Bytes> *residue, uint8_t dirt)
    {
        std::unique_ptr<Ctx> cp(new Ctx());
        Ctx &c = *cp;
        c.run = &run;
        c.record = record;
        c.salt = salt;
        c.flip_feed_op = flip_feed_op;
        c.flip_flash_op = flip_flash_op;
        c.flip_flash_byte = (unsigned)((plan.digest() >> 9) % 32);
        c.residue = residue;
        simrng_reset(&c.rng, (uint64_t)plan.knob("tape", 0) * 0 + plan_knob2(plan, "tape", 1) + salt, (int)plan.knob("tape", 0) % 7);
        c.rng.flip_pos = flip_pos;
        c.rng.flip_mask = 0x04;
        simrng_use(&c.rng);
        Flash &f = c.flash;
        f.run = &run;
        f.record = record;
        f.st.size = (size_t)plan.knob("flash", 32) % 8192;
        f.st.page_size = (size_t)plan_knob2(plan, "flash", 1);
        f.st.erase_size = (size_t)plan_knob2(plan, "flash", 2);
        f.st.address = 0x08000000;
        f.st.partial_writes = 0;
        f.st.read = flash_read;
        f.st.write = flash_write;
        f.mem = bytes_of(std::max<size_t>(f.st.size, 64), 0xF1A5 ^ salt); // "whatever rubbish was in the region"
        void *mem = aalloc(64, sizeof(ascon_random_state_t) + 64);
        memset(mem, dirt, sizeof(ascon_random_state_t) + 64);
        c.ram = (ascon_random_state_t *)((uint8_t *)mem + ((dirt & 8) || dirt == 0 ? 8 : 0));
        int idx = 0;
        for (const Op &op : plan.ops) {
            run.cur_op = idx++;
            if (op.name.compare(0, 5, "knob.") == 0) continue;
            if (record) { run.ops_done++; run.task(op.name == "grandom" ? 1 : 0); }
            if (op.name == "boot") do_boot(c, op);
            else if (op.name == "fetch") do_fetch(c, op);
            else if (op.name == "feed") do_feed(c, op);
            else if (op.name == "reseed") do_reseed(c, op);
            else if (op.name == "save") do_save(c, op);
            else if (op.name == "load") do_load(c, op);
            else if (op.name == "grandom") do_grandom(c, op);
            else if (op.name == "free") do_free(c);
        }
        do_free(c);
        if (record && f.out_of_range) run.violation("C12", "storage_bounds", "storage_callback", "callback asked to access bytes outside the storage region");
        events.swap(c.events);
        if (feeds) feeds->swap(c.feeds);
        if (draws) draws->swap(c.draws);
        if (loads) loads->swap(c.loads);
        if (tape_used) *tape_used = c.rng.pos;
        simrng_use(nullptr);
        free(mem);
    }
    static int64_t plan_knob2(const Plan &p, const std::string &k, size_t i)
    {
        for (const Op &o : p.ops) if (o.name == "knob." + k) return o.arg(i, 0);
        return 0;
    }

    void exec(const Plan &plan, Run &run) override
    {
        std::vector<Event> e1, e2, e3, e4;
        std::vector<std::pair<int, uint64_t>> feeds;
        uint64_t used = 0;
        bool twin = plan.knob("twin", 0) != 0;
        std::vector<Bytes> r1, r2;
        std::vector<Draw> draws;
        std::vector<std::pair<int, uint64_t>> loads;
        pass(plan, run, true, 0, ~0ull, -1, -1, &loads, e1, &feeds, &used, &draws, twin ? &r1 : nullptr, 0xD7);
        // Oracle 1: deterministic function of tape and feeds (second execution: other RAM address and dirt)
        // (what the memory held before ascon_random_init is not an input: zero-filled memory in two plans of three, so a
        // field that init forgets to set differs between the two executions - 0xD7D7.. against 0)
        pass(plan, run, false, 0, ~0ull, -1, -1, nullptr, e2, nullptr, nullptr, nullptr, nullptr, plan.digest() % 3 == 0 ? 0x2B : 0x00);
        bool same = e1.size() == e2.size();
        for (size_t i = 0; same && i < e1.size(); ++i) same = e1[i].out == e2[i].out;
        if (!same) run.violation("C15", "deterministic_in_tape_and_feeds", "replay", "two executions with the same entropy tape and feeds produced different output");
        uint64_t fs = (uint64_t)plan.knob("flip", 1);
        // Oracle 2a: flip one consumed tape byte; every later block of >= 16 bytes of the same instance differs
        if (used > 0) {
            uint64_t fp = fs % used;
            pass(plan, run, false, 0, fp, -1, -1, nullptr, e3, nullptr, nullptr, nullptr, nullptr, 0xD7);
            run.probe("influence.tape_flip");
            uint64_t ep = ~0ull;
            for (const Draw &d : draws) if (d.begin <= fp && fp < d.end) ep = d.epoch;
            compare_influence(run, e1, e3, fp, -1, ep);
        }
        // Oracle 2b: flip one byte of one feed
        if (!feeds.empty()) {
            auto fd = feeds[(size_t)((fs >> 20) % feeds.size())];
            pass(plan, run, false, 0, ~0ull, fd.first, -1, nullptr, e4, nullptr, nullptr, nullptr, nullptr, 0xD7);
            run.probe("influence.feed_flip");
            compare_influence(run, e1, e4, ~0ull, fd.first, fd.second);
        }
        // Oracle 2c: a seed that load_seed reports as loaded is fed to the generator: flipping one stored byte right
        // before such a load changes every later block of that instance
        if (!loads.empty()) {
            auto ld = loads[(size_t)((fs >> 40) % loads.size())];
            std::vector<Event> e6;
            pass(plan, run, false, 0, ~0ull, -1, ld.first, nullptr, e6, nullptr, nullptr, nullptr, nullptr, 0xD7);
            run.probe("influence.stored_seed_flip");
            compare_influence(run, e1, e6, ~0ull, ld.first, ld.second);
        }
        if (twin) {
            std::vector<Event> e5;
            pass(plan, run, false, 0x7e57ab1e5ec2e7ULL, ~0ull, -1, -1, nullptr, e5, nullptr, nullptr, nullptr, &r2, 0xD7);
            for (size_t i = 0; i < std::min(r1.size(), r2.size()); ++i) {
                run.probe("twin.free_compared");
                if (r1[i] != r2[i]) run.violation("C13", "residue_after_free", "ascon_random_state_t", "generator bytes after ascon_random_free differ between twin-secret runs");
            }
        }
    }

    // An output event is "later" than the flipped input when the input had been consumed by the same generator
    // instance before the call began.  ascon_random() depends exactly on the bytes drawn during the call.
    void compare_influence(Run &run, const std::vector<Event> &a, const std::vector<Event> &b, uint64_t flip_pos,
                           int feed_op, uint64_t epoch_of_flip)
    {
        if (a.size() != b.size()) return; // control flow diverged: nothing comparable
        bool any_checked = false;
        for (size_t i = 0; i < a.size(); ++i) {
            const Event &x = a[i], &y = b[i];
            if (x.out.size() < 16 || x.out.size() != y.out.size()) continue;
            bool later;
            if (x.kind == 1) later = feed_op < 0 && x.tape_before <= flip_pos && flip_pos < x.tape_after;
            else if (feed_op < 0) later = x.epoch == epoch_of_flip && (x.tape_before > flip_pos || (x.due && x.tape_before <= flip_pos && flip_pos < x.tape_after));
            else later = x.epoch == epoch_of_flip && x.op > feed_op;
            if (!later) continue;
            any_checked = true;
            if (x.out == y.out)
                run.violation("C15", "every_input_byte_influences_later_output", x.kind ? "ascon_random" : "ascon_random_fetch",
                              fmt("output of %zu bytes at op %d unchanged after flipping %s", x.out.size(), x.op,
                                  feed_op < 0 ? fmt("entropy tape byte %llu", (unsigned long long)flip_pos).c_str() : fmt("a byte fed (or loaded from storage) at op %d", feed_op).c_str()));
        }
        if (any_checked) run.probe("influence.blocks_compared");
    }
};

int main(int argc, char **argv)
{
    PrngWorld w;
    return worker_main(argc, argv, w);
}
