// World `keystore`: ISAP pre-computed keys through save / restart / load histories,
// plus the SIV one-shots in the same sessions (C06; feeds C09, C12, C13).
#define ASIM_MAIN 1
#include "core/asim.h"
#include "models/modes_ref.h"
#include <ascon/isap.h>
#include <ascon/siv.h>

using namespace asim;

#ifndef ASIM_REPO
#define ASIM_REPO "/repo"
#endif

union AnyKey {
    ascon128_isap_aead_key_t k128;
    ascon128a_isap_aead_key_t k128a;
    ascon80pq_isap_aead_key_t k80;
};
static size_t key_bytes(int alg) { return alg == 0 ? sizeof(ascon128_isap_aead_key_t) : alg == 1 ? sizeof(ascon128a_isap_aead_key_t) : sizeof(ascon80pq_isap_aead_key_t); }
static const char *isap_name[3] = {"isap128", "isap128a", "isap80pq"};
static const char *siv_name[3] = {"siv128", "siv128a", "siv80pq"};

static void k_init(AnyKey *k, int alg, const uint8_t *key)
{
    if (alg == 0) ascon128_isap_aead_init(&k->k128, key); else if (alg == 1) ascon128a_isap_aead_init(&k->k128a, key); else ascon80pq_isap_aead_init(&k->k80, key);
}
static void k_load(AnyKey *k, int alg, const uint8_t *saved)
{
    if (alg == 0) ascon128_isap_aead_load_key(&k->k128, saved); else if (alg == 1) ascon128a_isap_aead_load_key(&k->k128a, saved); else ascon80pq_isap_aead_load_key(&k->k80, saved);
}
static void k_save(AnyKey *k, int alg, uint8_t *saved)
{
    if (alg == 0) ascon128_isap_aead_save_key(&k->k128, saved); else if (alg == 1) ascon128a_isap_aead_save_key(&k->k128a, saved); else ascon80pq_isap_aead_save_key(&k->k80, saved);
}
static void k_free(AnyKey *k, int alg)
{
    if (alg == 0) ascon128_isap_aead_free(&k->k128); else if (alg == 1) ascon128a_isap_aead_free(&k->k128a); else ascon80pq_isap_aead_free(&k->k80);
}
static void k_encrypt(const AnyKey *k, int alg, uint8_t *c, size_t *clen, const uint8_t *m, size_t mlen, const uint8_t *ad, size_t adlen, const uint8_t *n)
{
    if (alg == 0) ascon128_isap_aead_encrypt(c, clen, m, mlen, ad, adlen, n, &k->k128);
    else if (alg == 1) ascon128a_isap_aead_encrypt(c, clen, m, mlen, ad, adlen, n, &k->k128a);
    else ascon80pq_isap_aead_encrypt(c, clen, m, mlen, ad, adlen, n, &k->k80);
}
static int k_decrypt(const AnyKey *k, int alg, uint8_t *m, size_t *mlen, const uint8_t *c, size_t clen, const uint8_t *ad, size_t adlen, const uint8_t *n)
{
    if (alg == 0) return ascon128_isap_aead_decrypt(m, mlen, c, clen, ad, adlen, n, &k->k128);
    if (alg == 1) return ascon128a_isap_aead_decrypt(m, mlen, c, clen, ad, adlen, n, &k->k128a);
    return ascon80pq_isap_aead_decrypt(m, mlen, c, clen, ad, adlen, n, &k->k80);
}

struct KeystoreWorld : World {
    const char *name() const override { return "keystore"; }
    bool selftest(std::string &err) override { return modes_ref::selftest(ASIM_REPO, err); }
    enum { NSLOT = 3 };

    static size_t pick_len(Rng &r)
    {
        switch (r.below(10)) {
        case 0: return 0;
        case 1: return 1;
        case 2: return 7;
        case 3: return 8;
        case 4: return 9;
        case 5: return 16;
        case 6: return 17;
        case 7: return r.chance(1, 6) ? 200 + r.below(800) : 24 + r.below(9);
        default: return r.below(40);
        }
    }

    void gen(Rng &r, Plan &pl, bool thorough) override
    {
        if (getenv("ASIM_TWIN")) pl.add("knob.twin", {1});
        int ns = 1 + (int)r.below(NSLOT);
        int nops = thorough ? 16 + (int)r.below(40) : 8 + (int)r.below(28);
        bool live[NSLOT] = {false, false, false};
        for (int i = 0; i < nops; ++i) {
            int s = (int)r.below(ns);
            unsigned c = (unsigned)r.below(100);
            if (c < 15) { pl.add("siv", {(int64_t)r.below(3), (int64_t)pick_len(r), (int64_t)pick_len(r), (int64_t)(r.next() >> 1)}); continue; }
            if (!live[s]) { pl.add("key", {s, (int64_t)r.below(3), (int64_t)(r.next() >> 1), (int64_t)r.below(2)}); live[s] = true; continue; }
            if (c < 50) pl.add("enc", {s, (int64_t)pick_len(r), (int64_t)pick_len(r), (int64_t)(r.next() >> 1)});
            else if (c < 65) pl.add("dec", {s, (int64_t)pick_len(r), (int64_t)pick_len(r), (int64_t)(r.next() >> 1), (int64_t)r.below(3)});
            else if (c < 75) pl.add("save", {s});
            else if (c < 90) pl.add("restart", {s, (int64_t)r.below(4)});
            else if (c < 95) { pl.add("key", {s, (int64_t)r.below(3), (int64_t)(r.next() >> 1), (int64_t)r.below(2)}); }
            else { pl.add("free", {s}); live[s] = false; }
        }
    }

    struct Slot {
        bool live = false;
        int alg = 0;
        Bytes key;          // model: the raw key this object stands for
        uint8_t *mem[2];    // two homes, so that a restart can land in other (dirty) memory
        int home = 0;
        AnyKey *k = nullptr;
        bool have_saved = false;
        uint8_t saved[ASCON_ISAP_SAVED_KEY_SIZE]; // the durable state
        int packets = 0;
    };
    struct Ctx {
        Run *run;
        bool record;
        uint64_t salt;
        Slot s[NSLOT];
        std::vector<Bytes> *residue;
    };

    static void do_free(Ctx &c, int i)
    {
        Slot &S = c.s[i];
        if (!S.live) return;
        k_free(S.k, S.alg);
        if (c.residue) c.residue->push_back(Bytes((uint8_t *)S.k, (uint8_t *)S.k + key_bytes(S.alg)));
        S.live = false;
    }

    static void packet(Ctx &c, int i, const Op &op, bool decrypt_only)
    {
        Slot &S = c.s[i];
        if (!S.live) return;
        size_t mlen = (size_t)(op.u(1) % 1200), adlen = (size_t)(op.u(2) % 1200);
        uint64_t sd = op.u(3);
        Bytes m = bytes_of(mlen, sd ^ 1 ^ c.salt), ad = bytes_of(adlen, sd ^ 2), n = bytes_of(16, sd ^ 3);
        const uint8_t *mp = mlen ? m.data() : nullptr, *ap = adlen ? ad.data() : nullptr;
        Bytes before((uint8_t *)S.k, (uint8_t *)S.k + key_bytes(S.alg));
        std::string site = isap_name[S.alg];
        Bytes want;
        if (c.record) want = modes_ref::isap_encrypt(S.alg, S.key, n, ad, m);
        GuardBuf ct(mlen + 16, (unsigned)mlen, false);
        size_t clen = 0;
        // a third of the calls work in place (output buffer = input buffer), which the library supports for every cipher
        bool inplace_e = (sd >> 20) % 3 == 0, inplace_d = (sd >> 24) % 3 == 0;
        if (!decrypt_only) {
            if (inplace_e && mlen) { memcpy(ct.p, mp, mlen); k_encrypt(S.k, S.alg, ct.p, &clen, ct.p, mlen, ap, adlen, n.data()); if (c.record) c.run->fault("buf.in_place"); }
            else k_encrypt(S.k, S.alg, ct.p, &clen, mp, mlen, ap, adlen, n.data());
            if (c.record) {
                if (!ct.intact()) c.run->violation("C12", "canary", site + ".encrypt", "ciphertext canary damaged");
                c.run->fold(ct.p, mlen + 16);
                if (clen != mlen + 16 || memcmp(ct.p, want.data(), mlen + 16) != 0)
                    c.run->violation("C06", S.packets && S.have_saved ? "isap_matches_spec_after_history" : "isap_matches_spec", site + ".encrypt",
                                     fmt("packet %d mlen=%zu adlen=%zu: output differs from the ISAP v2.0 reference model%s", S.packets, mlen, adlen,
                                         S.home ? " (object was restored from a saved key)" : ""));
            }
        } else if (c.record) memcpy(ct.p, want.data(), mlen + 16);
        else { k_encrypt(S.k, S.alg, ct.p, &clen, mp, mlen, ap, adlen, n.data()); }
        if (c.record && memcmp(before.data(), S.k, before.size()) != 0)
            c.run->violation("C06", "precomputed_key_never_modified", site + (decrypt_only ? ".setup" : ".encrypt"), "bytes of the pre-computed key changed during encryption");
        // decrypt (possibly tampered) with the same pre-computed key
        int tamper = decrypt_only ? (int)(op.u(4) % 3) : 0;
        Bytes x(ct.p, ct.p + mlen + 16);
        if (tamper == 1) x[(size_t)(sd % x.size())] ^= 0x04;
        if (tamper == 2) x.resize(x.size() - 1 - (size_t)(sd % 16));
        bool dip = inplace_d && x.size() >= 16;
        GuardBuf pt(dip ? x.size() : x.size() >= 16 ? x.size() - 16 : 0, 3, false);
        size_t ml = 0;
        int r;
        if (dip) { memcpy(pt.p, x.data(), x.size()); r = k_decrypt(S.k, S.alg, pt.p, &ml, pt.p, x.size(), ap, adlen, n.data()); }
        else r = k_decrypt(S.k, S.alg, pt.p, &ml, x.data(), x.size(), ap, adlen, n.data());
        if (c.record) {
            c.run->fold_u64((uint64_t)(int64_t)r);
            if (!pt.intact()) c.run->violation("C12", "canary", site + ".decrypt", "plaintext canary damaged");
            if (memcmp(before.data(), S.k, before.size()) != 0)
                c.run->violation("C06", "precomputed_key_never_modified", site + ".decrypt", "bytes of the pre-computed key changed during decryption");
            if (tamper == 0 && (r != 0 || ml != mlen || (mlen && memcmp(pt.p, m.data(), mlen) != 0)))
                c.run->violation("C06", "isap_round_trip", site + ".decrypt", fmt("packet %d mlen=%zu result=%d", S.packets, mlen, r));
            if (tamper != 0 && r >= 0) c.run->violation("C06", "isap_round_trip", site + ".decrypt.tampered", fmt("tamper=%d accepted", tamper));
            c.run->state(fmt("pkt/%d/%d/%d/%s/%s/%d", S.alg, (int)decrypt_only, tamper, mlen == 0 ? "0" : mlen < 8 ? "<" : mlen % 8 ? ">" : "k", adlen == 0 ? "0" : adlen % 8 ? ">" : "k", S.home));
        }
        S.packets++;
    }

    static void do_siv(Ctx &c, const Op &op)
    {
        int alg = (int)(op.u(0) % 3);
        size_t mlen = (size_t)(op.u(1) % 1200), adlen = (size_t)(op.u(2) % 1200);
        uint64_t sd = op.u(3);
        size_t klen = alg == 2 ? 20 : 16;
        Bytes k = bytes_of(klen, sd ^ 5 ^ c.salt), n = bytes_of(16, sd ^ 6), m = bytes_of(mlen, sd ^ 7 ^ c.salt), ad = bytes_of(adlen, sd ^ 8);
        const uint8_t *mp = mlen ? m.data() : nullptr, *ap = adlen ? ad.data() : nullptr;
        GuardBuf ct(mlen + 16, (unsigned)adlen, false), ct2(mlen + 16, 5, false);
        size_t cl = 0, cl2 = 0;
        for (int rep = 0; rep < 2; ++rep) {
            GuardBuf &o = rep ? ct2 : ct;
            size_t &l = rep ? cl2 : cl;
            const uint8_t *src = mp;
            if (rep == 1 && mlen && (sd >> 20) % 2 == 0) { memcpy(o.p, mp, mlen); src = o.p; } // the second computation in place
            if (alg == 0) ascon128_siv_encrypt(o.p, &l, src, mlen, ap, adlen, n.data(), k.data());
            else if (alg == 1) ascon128a_siv_encrypt(o.p, &l, src, mlen, ap, adlen, n.data(), k.data());
            else ascon80pq_siv_encrypt(o.p, &l, src, mlen, ap, adlen, n.data(), k.data());
        }
        if (!c.record) return;
        std::string site = siv_name[alg];
        if (!ct.intact() || !ct2.intact()) c.run->violation("C12", "canary", site + ".encrypt", "ciphertext canary damaged");
        c.run->fold(ct.p, mlen + 16);
        Bytes want = modes_ref::siv_encrypt(alg, k, n, ad, m);
        if (cl != mlen + 16 || memcmp(ct.p, want.data(), mlen + 16) != 0)
            c.run->violation("C06", "siv_matches_documented_construction", site + ".encrypt", fmt("mlen=%zu adlen=%zu: output differs from the two-pass reference model", mlen, adlen));
        if (cl != cl2 || memcmp(ct.p, ct2.p, mlen + 16) != 0)
            c.run->violation("C06", "siv_equal_inputs_equal_outputs", site + ".encrypt", fmt("mlen=%zu adlen=%zu", mlen, adlen));
        bool dip = (sd >> 24) % 2 == 0;
        GuardBuf pt(dip ? mlen + 16 : mlen, 1, false);
        const uint8_t *csrc = ct.p;
        if (dip) { memcpy(pt.p, ct.p, mlen + 16); csrc = pt.p; }
        size_t ml = 0;
        int r;
        if (alg == 0) r = ascon128_siv_decrypt(pt.p, &ml, csrc, mlen + 16, ap, adlen, n.data(), k.data());
        else if (alg == 1) r = ascon128a_siv_decrypt(pt.p, &ml, csrc, mlen + 16, ap, adlen, n.data(), k.data());
        else r = ascon80pq_siv_decrypt(pt.p, &ml, csrc, mlen + 16, ap, adlen, n.data(), k.data());
        if (r != 0 || ml != mlen || (mlen && memcmp(pt.p, m.data(), mlen) != 0))
            c.run->violation("C06", "siv_round_trip", site + ".decrypt", fmt("mlen=%zu adlen=%zu result=%d", mlen, adlen, r));
        // The same decryption with both buffers in one arena, disjoint but 0..19 bytes apart, in either order: where the
        // buffers live is not an input of the construction.
        {
            size_t gap = (size_t)((sd >> 28) % 20);
            bool pt_first = (sd >> 33) % 2 == 0;
            GuardBuf arena(mlen + gap + mlen + 16, (unsigned)(sd >> 36), false);
            uint8_t *ptp = pt_first ? arena.p : arena.p + mlen + 16 + gap;
            uint8_t *ctp = pt_first ? arena.p + mlen + gap : arena.p;
            memcpy(ctp, ct.p, mlen + 16);
            size_t ml2 = 0;
            int r2;
            if (alg == 0) r2 = ascon128_siv_decrypt(ptp, &ml2, ctp, mlen + 16, ap, adlen, n.data(), k.data());
            else if (alg == 1) r2 = ascon128a_siv_decrypt(ptp, &ml2, ctp, mlen + 16, ap, adlen, n.data(), k.data());
            else r2 = ascon80pq_siv_decrypt(ptp, &ml2, ctp, mlen + 16, ap, adlen, n.data(), k.data());
            c.run->probe("siv.decrypt_adjacent_buffers");
            if (r2 != 0 || ml2 != mlen || (mlen && memcmp(ptp, m.data(), mlen) != 0))
                c.run->violation("C06", "siv_round_trip", site + ".decrypt.adjacent_buffers",
                                 fmt("mlen=%zu adlen=%zu result=%d: plaintext buffer %s the ciphertext buffer, %zu bytes apart", mlen, adlen, r2, pt_first ? "before" : "after", gap));
            if (!arena.intact()) c.run->violation("C12", "canary", site + ".decrypt.adjacent_buffers", "arena canary damaged");
            // and the encryption side: message right before / after the ciphertext buffer
            GuardBuf arena2(mlen + gap + mlen + 16, (unsigned)(sd >> 40), false);
            uint8_t *mp2 = pt_first ? arena2.p : arena2.p + mlen + 16 + gap;
            uint8_t *cp2 = pt_first ? arena2.p + mlen + gap : arena2.p;
            if (mlen) memcpy(mp2, m.data(), mlen);
            size_t cl3 = 0;
            if (alg == 0) ascon128_siv_encrypt(cp2, &cl3, mp2, mlen, ap, adlen, n.data(), k.data());
            else if (alg == 1) ascon128a_siv_encrypt(cp2, &cl3, mp2, mlen, ap, adlen, n.data(), k.data());
            else ascon80pq_siv_encrypt(cp2, &cl3, mp2, mlen, ap, adlen, n.data(), k.data());
            if (cl3 != mlen + 16 || memcmp(cp2, want.data(), mlen + 16) != 0)
                c.run->violation("C06", "siv_matches_documented_construction", site + ".encrypt.adjacent_buffers", fmt("mlen=%zu adlen=%zu gap=%zu", mlen, adlen, gap));
        }
        c.run->state(fmt("siv/%d/%s/%s", alg, mlen == 0 ? "0" : mlen < 8 ? "<" : mlen % 8 ? ">" : "k", adlen == 0 ? "0" : adlen % 8 ? ">" : "k"));
    }

    void pass(const Plan &plan, Run &run, bool record, uint64_t salt, std::vector<Bytes> *residue)
    {
        Ctx *cp = new Ctx();
        Ctx &c = *cp;
        c.run = &run;
        c.record = record;
        c.salt = salt;
        c.residue = residue;
        for (int i = 0; i < NSLOT; ++i)
            for (int h = 0; h < 2; ++h) {
                c.s[i].mem[h] = (uint8_t *)aalloc(64, sizeof(AnyKey) + 64);
                memset(c.s[i].mem[h], h ? 0xEE : 0x11, sizeof(AnyKey) + 64);
            }
        int idx = 0;
        for (const Op &op : plan.ops) {
            run.cur_op = idx++;
            if (op.name.compare(0, 5, "knob.") == 0) continue;
            if (record) { run.ops_done++; run.task(op.name == "siv" ? 9 : (int64_t)(op.u(0) % NSLOT)); }
            if (op.name == "siv") { do_siv(c, op); continue; }
            int i = (int)(op.u(0) % NSLOT);
            Slot &S = c.s[i];
            if (op.name == "key") {
                do_free(c, i);
                S.alg = (int)(op.u(1) % 3);
                S.key = bytes_of(S.alg == 2 ? 20 : 16, op.u(2) ^ salt);
                S.home = (int)(op.u(3) & 1);
                S.k = (AnyKey *)(S.mem[S.home] + (S.home ? 8 : 0));
                k_init(S.k, S.alg, S.key.data());
                S.live = true;
                S.have_saved = false;
                S.packets = 0;
                if (record) run.state(fmt("key/%d/%d", S.alg, S.home));
            } else if (op.name == "enc") packet(c, i, op, false);
            else if (op.name == "dec") packet(c, i, op, true);
            else if (op.name == "save") {
                if (!S.live) continue;
                Bytes before((uint8_t *)S.k, (uint8_t *)S.k + key_bytes(S.alg));
                GuardBuf sv(ASCON_ISAP_SAVED_KEY_SIZE, 7, false);
                k_save(S.k, S.alg, sv.p);
                if (record) {
                    if (!sv.intact()) run.violation("C12", "canary", std::string(isap_name[S.alg]) + ".save_key", "saved-key canary damaged");
                    if (memcmp(before.data(), S.k, before.size()) != 0)
                        run.violation("C06", "precomputed_key_never_modified", std::string(isap_name[S.alg]) + ".save_key", "bytes of the pre-computed key changed while saving");
                    if (S.have_saved && memcmp(S.saved, sv.p, sizeof S.saved) != 0)
                        run.violation("C06", "saved_key_stable", std::string(isap_name[S.alg]) + ".save_key", "saving the same key twice gave different images");
                    run.fold(sv.p, ASCON_ISAP_SAVED_KEY_SIZE);
                }
                memcpy(S.saved, sv.p, sizeof S.saved);
                S.have_saved = true;
            } else if (op.name == "restart") {
                // the process goes away: only the saved image survives; load it again, possibly elsewhere
                if (!S.live || !S.have_saved) continue;
                do_free(c, i);
                int where = (int)(op.u(1) % 4);
                S.home = where & 1;
                if (where & 2) memset(S.mem[S.home], 0xA7, sizeof(AnyKey) + 64); // dirty
                S.k = (AnyKey *)(S.mem[S.home] + (S.home ? 8 : 0));
                k_load(S.k, S.alg, S.saved);
                S.live = true;
                uint8_t again[ASCON_ISAP_SAVED_KEY_SIZE];
                k_save(S.k, S.alg, again);
                if (record) {
                    run.fault("obj.restart_from_saved");
                    if (where & 2) run.fault("obj.dirty_memory_init");
                    if (memcmp(again, S.saved, sizeof again) != 0)
                        run.violation("C06", "save_load_identity", std::string(isap_name[S.alg]) + ".load_key", "save(load(s)) differs from s");
                }
            } else if (op.name == "free") do_free(c, i);
        }
        for (int i = 0; i < NSLOT; ++i) {
            do_free(c, i);
            free(c.s[i].mem[0]);
            free(c.s[i].mem[1]);
        }
        delete cp;
    }

    void exec(const Plan &plan, Run &run) override
    {
        bool twin = plan.knob("twin", 0) != 0;
        std::vector<Bytes> r1, r2;
        pass(plan, run, true, 0, twin ? &r1 : nullptr);
        if (twin) {
            pass(plan, run, false, 0x7e57ab1e5ec2e7ULL, &r2);
            for (size_t i = 0; i < std::min(r1.size(), r2.size()); ++i) {
                run.probe("twin.free_compared");
                if (r1[i] != r2[i]) run.violation("C13", "residue_after_free", "isap_precomputed_key", "key object bytes after free differ between twin-secret runs");
            }
        }
    }
};

int main(int argc, char **argv)
{
    KeystoreWorld w;
    return worker_main(argc, argv, w);
}
