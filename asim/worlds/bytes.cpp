// World `bytes`: hex codec under hostile character streams and capacities, and
// (in the ASCON_NO_STL build) histories on a pool of aliased byte_array values
// mirrored by std::vector, with allocation faults (C20; feeds C12).
#define ASIM_MAIN 1
#include "core/asim.h"
#include <ascon/utility.h>
#include <vector>
#include <string>
#include <new>

using namespace asim;

// ---- allocator seam: replaceable global operator new -----------------------
static long g_fail_at = 0;     // >0: the g_fail_at-th allocation from now throws
static long g_allocs = 0;      // allocations seen while armed/tracked
static long g_live = 0;        // live tracked blocks
static bool g_track = false;
static bool g_fired = false;

void *operator new(size_t n)
{
    if (g_track) {
        ++g_allocs;
        if (g_fail_at > 0 && g_allocs == g_fail_at) { g_fired = true; throw std::bad_alloc(); }
    }
    void *p = malloc(n ? n : 1);
    if (!p) throw std::bad_alloc();
    if (g_track) ++g_live;
    return p;
}
void *operator new[](size_t n) { return operator new(n); }
void operator delete(void *p) noexcept { if (p && g_track) --g_live; free(p); }
void operator delete[](void *p) noexcept { operator delete(p); }
void operator delete(void *p, size_t) noexcept { operator delete(p); }
void operator delete[](void *p, size_t) noexcept { operator delete(p); }

struct Track {
    Track(long fail_at = 0) { g_allocs = 0; g_fail_at = fail_at; g_fired = false; g_track = true; }
    ~Track() { g_track = false; g_fail_at = 0; }
};

// ---- reference hex decoder: the grammar in the property's words ------------
static int ref_decode(const std::string &s, size_t cap, Bytes &out)
{
    out.clear();
    int nib = -1;
    for (unsigned char ch : s) {
        int d;
        if (ch >= '0' && ch <= '9') d = ch - '0';
        else if (ch >= 'a' && ch <= 'f') d = ch - 'a' + 10;
        else if (ch >= 'A' && ch <= 'F') d = ch - 'A' + 10;
        else if (ch == ' ' || ch == '\t' || ch == '\r' || ch == '\n' || ch == '\f' || ch == '\v') continue;
        else return -1;
        if (nib < 0) nib = d; else { out.push_back((uint8_t)(nib * 16 + d)); nib = -1; }
    }
    if (nib >= 0) return -1;
    if (out.size() > cap) return -1;
    return (int)out.size();
}

static std::string gen_hex_text(Rng &r, size_t nbytes, int kind)
{
    static const char *digs = "0123456789abcdefABCDEF";
    static const char ws[] = {' ', '\t', '\r', '\n', '\f', '\v'};
    std::string s;
    for (size_t i = 0; i < nbytes; ++i) {
        for (int h = 0; h < 2; ++h) {
            if (kind >= 1 && r.chance(1, 4)) { int n = 1 + (int)r.below(3); for (int k = 0; k < n; ++k) s += ws[r.below(6)]; }
            s += digs[r.below(22)];
        }
    }
    if (kind >= 1 && r.chance(1, 2)) s += ws[r.below(6)];
    static const char bad[] = {'g', 'G', 'x', ':', '-', '/', '@', '`', '\0', (char)0x80, (char)0xff, '\x0e', '\x1f', '!', 'z', 'h', '_', '9' + 1, 'F' + 1, 'f' + 1, '0' - 1, 'A' - 1, 'a' - 1};
    // an illegal character: half the time from the curated boundary list above, half the time ANY byte that is
    // neither a hex digit nor one of the six white-space characters (a decoder must reject all 228 of them)
    auto bad_char = [&]() -> char {
        if (r.chance(1, 2)) return bad[r.below(sizeof bad)];
        for (;;) {
            unsigned char ch = (unsigned char)r.below(256);
            if (isxdigit(ch) || ch == ' ' || ch == '\t' || ch == '\r' || ch == '\n' || ch == '\f' || ch == '\v') continue;
            return (char)ch;
        }
    };
    int nmut = kind >= 2 ? 1 + (int)r.below(2) : 0;
    for (int mu = 0; mu < nmut; ++mu) {
        // digit positions of the current text
        std::vector<size_t> dpos;
        for (size_t i = 0; i < s.size(); ++i) if (isxdigit((unsigned char)s[i])) dpos.push_back(i);
        int what = kind == 2 ? (int)r.below(2) : 2 + (int)r.below(2);
        if (mu == 1) what = (int)r.below(4); // second mutation: anything, so parity and legality combine freely
        switch (what) {
        case 0: s.insert(s.begin() + (long)(s.empty() ? 0 : r.below(s.size() + 1)), bad_char()); break;          // insert illegal
        case 1: if (!dpos.empty()) s[dpos[r.below(dpos.size())]] = bad_char(); else s += bad_char(); break; // replace a digit: parity kept
        case 2: s.insert(s.begin() + (long)(s.empty() ? 0 : r.below(s.size() + 1)), digs[r.below(22)]); break;                 // extra digit
        default: if (!dpos.empty()) s.erase(s.begin() + (long)dpos[r.below(dpos.size())]); else s += digs[r.below(22)]; break;  // missing digit
        }
    }
    return s;
}

#if defined(ASCON_NO_STL)
typedef ascon::byte_array BA;
static Bytes observe(const BA &b)
{
    const BA &cb = b;
    size_t n = cb.size();
    const unsigned char *d = cb.data();
    return n ? Bytes(d, d + n) : Bytes();
}
#endif

struct BytesWorld : World {
    const char *name() const override { return "bytes"; }
    enum { NVARS = 6 };

    void gen(Rng &r, Plan &pl, bool thorough) override
    {
        int nops = thorough ? 20 + (int)r.below(44) : 10 + (int)r.below(40);
#if defined(ASCON_NO_STL)
        bool faulty = !r.chance(1, 3);
        int nv = 2 + (int)r.below(NVARS - 1);
#endif
        for (int i = 0; i < nops; ++i) {
            unsigned c = (unsigned)r.below(100);
#if defined(ASCON_NO_STL)
            if (c >= 30) {
                int v = (int)r.below(nv), w = (int)r.below(nv);
                int64_t fail = faulty && r.chance(1, 7) ? 1 + (int64_t)r.below(2) : 0;
                int64_t n = r.pickv({0, 1, 2, 3, 15, 16, 17, 31, 32, 33, 48, 100});
                pl.add("ba", {(int64_t)r.below(21), v, w, n, (int64_t)r.below(256), fail});
                continue;
            }
#endif
            if (c < 12) pl.add("hexenc", {(int64_t)r.pickv({0, 1, 2, 7, 16, 33, 200}), (int64_t)(r.chance(1, 2) ? r.below(2) : r.below(8)), (int64_t)r.below(5), (int64_t)(r.next() >> 1)});
            else if (c < 24) pl.add("hexdec", {(int64_t)r.pickv({0, 1, 2, 3, 8, 16, 33, 100}), (int64_t)r.below(4), (int64_t)r.below(5), (int64_t)(r.next() >> 1)});
            else pl.add("hexcpp", {(int64_t)r.pickv({0, 1, 2, 5, 16, 40, 63, 64, 65, 127, 128, 129, 200, 599}), (int64_t)r.below(4), (int64_t)r.below(4), (int64_t)(r.next() >> 1)});
        }
    }

    static size_t cap_for(int64_t sel, size_t exact)
    {
        switch (sel % 5) {
        case 0: return exact;
        case 1: return exact ? exact - 1 : 0;
        case 2: return 0;
        case 3: return exact + 1;
        default: return exact + 17;
        }
    }

    void do_hexenc(Run &run, const Op &op)
    {
        size_t n = (size_t)(op.u(0) % 600);
        // documented: "use uppercase hexadecimal letters if non-zero" - every int is a legal flag
        static const int flagv[8] = {0, 1, 2, -1, 256, 32, 0x7fffffff, (int)0x80000000u};
        int flag = flagv[op.u(1) % 8];
        bool upper = flag != 0;
        Bytes in = bytes_of(n, op.u(3));
        size_t cap = cap_for(op.arg(2), 2 * n + 1);
        GuardBuf out(cap, (unsigned)n, false, 0x7e);
        GuardBuf ib(n, 3, false);
        ib.set(in);
        int r = ascon_bytes_to_hex((char *)out.p, cap, ib.p, n, flag);
        run.fold_u64((uint64_t)(int64_t)r);
        if (!out.intact()) run.violation("C12", "canary", "ascon_bytes_to_hex", "output canary damaged");
        run.state(fmt("enc/%s/%d", cap >= 2 * n + 1 ? "fits" : cap ? "short" : "zero", (int)upper));
        if (cap < 2 * n + 1) {
            if (r != -1) run.violation("C20", "hex_encode_insufficient_space", "ascon_bytes_to_hex", fmt("n=%zu cap=%zu returned %d", n, cap, r));
            return;
        }
        std::string want;
        static const char *lo = "0123456789abcdef", *up = "0123456789ABCDEF";
        const char *tab = upper ? up : lo;
        for (size_t i = 0; i < in.size(); ++i) { unsigned v = in[i]; want.push_back(tab[(v >> 4) & 15u]); want.push_back(tab[v & 15u]); }
        if (r != (int)(2 * n) || memcmp(out.p, want.c_str(), 2 * n + 1) != 0)
            run.violation("C20", "hex_encode", "ascon_bytes_to_hex", fmt("n=%zu returned %d got=%s want=%s", n, r, hex(out.p, 2 * n + 1, 12).c_str(), hex((const uint8_t *)want.c_str(), 2 * n + 1, 12).c_str()));
        // round trip through the decoder
        GuardBuf back(n, 5, false);
        int d = ascon_bytes_from_hex(back.p, n, (const char *)out.p, 2 * n);
        if (d != (int)n || (n && memcmp(back.p, in.data(), n) != 0))
            run.violation("C20", "hex_round_trip", "ascon_bytes_from_hex", fmt("n=%zu decode(encode(x)) returned %d", n, d));
        if (!back.intact()) run.violation("C12", "canary", "ascon_bytes_from_hex", "output canary damaged");
        run.fold(out.p, 2 * n);
    }

    void do_hexdec(Run &run, const Op &op)
    {
        Rng r(op.u(3));
        size_t nbytes = (size_t)(op.u(0) % 300);
        int kind = (int)(op.u(1) % 4);
        std::string text = gen_hex_text(r, nbytes, kind);
        Bytes want;
        int full = ref_decode(text, (size_t)-1, want);
        size_t exact = full >= 0 ? (size_t)full : nbytes;
        size_t cap = cap_for(op.arg(2), exact);
        Bytes w2;
        int expect = ref_decode(text, cap, w2);
        GuardBuf out(cap, (unsigned)text.size(), false, 0x7e);
        GuardBuf in(text.size(), 1, false);
        if (!text.empty()) memcpy(in.p, text.data(), text.size());
        int got = ascon_bytes_from_hex(out.p, cap, (const char *)in.p, text.size());
        run.fold_u64((uint64_t)(int64_t)got);
        run.state(fmt("dec/%d/%s/%d", kind, cap == exact ? "exact" : cap < exact ? "short" : "larger", expect >= 0));
        if (kind == 2) run.fault("hex.illegal_char");
        if (kind == 3) run.fault("hex.odd_digits");
        if (cap < exact) run.fault("hex.insufficient_space");
        // "never writes beyond the space given" is a clause of C20 itself (and, as any stray write, of C12)
        if (!out.intact()) { run.violation("C20", "writes_beyond_space_given", "ascon_bytes_from_hex", fmt("wrote beyond the %zu bytes given (textlen=%zu)", cap, text.size())); run.violation("C12", "canary", "ascon_bytes_from_hex", fmt("wrote beyond the %zu bytes given", cap)); }
        if (!in.intact()) run.violation("C12", "canary", "ascon_bytes_from_hex.in", "input canary damaged");
        if (got != expect)
            run.violation("C20", "hex_decode_result", "ascon_bytes_from_hex", fmt("kind=%d textlen=%zu cap=%zu returned %d, grammar says %d", kind, text.size(), cap, got, expect));
        else if (got > 0 && memcmp(out.p, w2.data(), (size_t)got) != 0)
            run.violation("C20", "hex_decode_bytes", "ascon_bytes_from_hex", fmt("kind=%d decoded bytes differ", kind));
        if (got > 0) run.fold(out.p, (size_t)got);
    }

    void do_hexcpp(Run &run, const Op &op)
    {
        Rng r(op.u(3));
        size_t nbytes = (size_t)(op.u(0) % 600);
        int kind = (int)(op.u(1) % 4);
        int how = (int)(op.u(2) % 4);
        std::string text = gen_hex_text(r, nbytes, kind);
        Bytes want;
        int full = ref_decode(text, (size_t)-1, want);
        if (kind >= 1) run.fault(kind == 1 ? "hex.whitespace" : kind == 2 ? "hex.illegal_char" : "hex.odd_digits");
        bool has_nul = text.find('\0') != std::string::npos;
        Bytes got;
        std::string site;
        if (how == 1 && !has_nul) {
            ascon::byte_array v = ascon::bytes_from_hex(text.c_str());
            got.assign(v.data() ? v.data() : (const unsigned char *)"", (v.data() ? v.data() : (const unsigned char *)"") + v.size());
            site = "bytes_from_hex(cstr)";
        }
#if !defined(ASCON_NO_STL)
        else if (how == 2) {
            ascon::byte_array v = ascon::bytes_from_hex(text);
            got.assign(v.begin(), v.end());
            site = "bytes_from_hex(std::string)";
        }
#endif
        else {
            ascon::byte_array v = ascon::bytes_from_hex(text.data(), text.size());
            const ascon::byte_array &cv = v;
            if (cv.size()) got.assign(cv.data(), cv.data() + cv.size());
            site = "bytes_from_hex(ptr,len)";
        }
        run.state(fmt("cpp/%d/%d/%d", kind, how, full >= 0));
        run.fold_bytes(got);
        Bytes expect = full >= 0 ? want : Bytes();
        if (got != expect)
            run.violation("C20", "cpp_decode_returns_exactly_decoded_bytes", site,
                          fmt("kind=%d textlen=%zu: helper returned %zu bytes, decoded value has %zu bytes", kind, text.size(), got.size(), expect.size()));
        // bytes_from_data and (STL) bytes_to_hex on the decoded value
        if (expect.empty()) {
            // an empty input, given as a null or as a valid pointer, is a valid call
            static const unsigned char one = 0;
            ascon::byte_array d = ascon::bytes_from_data((op.u(3) & 2) ? nullptr : &one, 0);
            const ascon::byte_array &cd = d;
            if (cd.size() != 0) run.violation("C20", "bytes_from_data", "bytes_from_data", "non-empty result for len=0");
            run.probe("bytes_from_data.empty");
        }
        if (!expect.empty()) {
            ascon::byte_array d = ascon::bytes_from_data(expect.data(), expect.size());
            const ascon::byte_array &cd = d;
            if (cd.size() != expect.size() || memcmp(cd.data(), expect.data(), expect.size()) != 0)
                run.violation("C20", "bytes_from_data", "bytes_from_data", fmt("len=%zu", expect.size()));
#if !defined(ASCON_NO_STL)
            bool upper = op.u(3) & 1;
            std::string hx = how & 1 ? ascon::bytes_to_hex(d, upper) : ascon::bytes_to_hex(expect.data(), expect.size(), upper);
            Bytes back;
            if (hx.size() != 2 * expect.size() || ref_decode(hx, (size_t)-1, back) < 0 || back != expect)
                run.violation("C20", "cpp_bytes_to_hex", "bytes_to_hex", fmt("len=%zu produced %zu characters", expect.size(), hx.size()));
            for (char ch : hx) if ((upper && ch >= 'a' && ch <= 'f') || (!upper && ch >= 'A' && ch <= 'F')) { run.violation("C20", "cpp_bytes_to_hex", "bytes_to_hex.case", "wrong letter case"); break; }
#endif
        }
    }

#if defined(ASCON_NO_STL)
    struct Pool {
        alignas(16) unsigned char mem[NVARS][sizeof(BA)];
        bool live[NVARS];
        std::vector<unsigned char> mirror[NVARS];
        BA &v(int i) { return *reinterpret_cast<BA *>(mem[i]); }
    };

    void check_all(Run &run, Pool &p, int except, const char *opname)
    {
        for (int i = 0; i < NVARS; ++i) {
            if (!p.live[i] || i == except) continue;
            Bytes o = observe(p.v(i));
            const BA &cv = p.v(i);
            if (o != p.mirror[i] || cv.empty() != p.mirror[i].empty() || cv.capacity() < cv.size()) {
                run.violation("C20", "byte_array_equals_vector", opname,
                              fmt("after %s variable %d holds %zu bytes [%s], std::vector mirror holds %zu bytes [%s]", opname, i, o.size(),
                                  hex(o, 12).c_str(), p.mirror[i].size(), hex(p.mirror[i], 12).c_str()));
                p.mirror[i] = o; // report a divergence once, then follow the implementation
            }
        }
    }

    void do_ba(Run &run, Pool &p, const Op &op)
    {
        static const char *names[21] = {"default_construct", "construct_size_value", "copy_construct", "assign", "index_write", "index_read",
                                        "data_write", "resize", "reserve", "push_back", "pop_back", "clear", "compare", "iterate", "destroy",
                                        "end_write", "begin_write", "end_then_begin_fill", "const_read", "many_copies", "push_back_own_element"};
        int kind = (int)(op.u(0) % 21);
        int i = (int)(op.u(1) % NVARS), j = (int)(op.u(2) % NVARS);
        size_t n = (size_t)(op.u(3) % 300);
        unsigned char val = (unsigned char)op.u(4);
        long fail = (long)(op.u(5) % 4);
        const char *nm = names[kind];
        if (!p.live[i] && kind != 0 && kind != 1 && kind != 2) { // bring the variable to life first
            Track t;
            new (p.mem[i]) BA();
            p.live[i] = true;
            p.mirror[i].clear();
        }
        std::vector<unsigned char> &m = p.mirror[i];
        bool threw = false;
        bool shared_before = false;
        for (int k = 0; k < NVARS; ++k)
            if (k != i && p.live[k] && p.live[i] && observe(p.v(k)).size() && ((const BA &)p.v(k)).data() == ((const BA &)p.v(i)).data()) shared_before = true;
        run.state(fmt("ba/%s/%d/%d/%s", nm, (int)shared_before, (int)(fail != 0), n == 0 ? "0" : n <= 16 ? "<=16" : ">16"));
        try {
            switch (kind) {
            case 0: { Track t(fail); if (p.live[i]) { p.v(i).~BA(); p.live[i] = false; } new (p.mem[i]) BA(); p.live[i] = true; } m.clear(); break;
            case 1: {
                { Track t; if (p.live[i]) { p.v(i).~BA(); p.live[i] = false; } }
                { Track t(fail); new (p.mem[i]) BA(n, val); p.live[i] = true; }
                m.assign(n, val);
                break; }
            case 2: {
                if (!p.live[j] || i == j) return;
                { Track t; if (p.live[i]) { p.v(i).~BA(); p.live[i] = false; } }
                { Track t(fail); new (p.mem[i]) BA(p.v(j)); p.live[i] = true; }
                m = p.mirror[j];
                run.fault("obj.copy");
                break; }
            case 3: {
                if (!p.live[j]) return;
                { Track t(fail); p.v(i) = p.v(j); }
                m = p.mirror[j];
                if (i == j) run.probe("ba.self_assign"); else run.fault("obj.copy");
                break; }
            case 4: if (m.empty()) return; { size_t pos = n % m.size(); { Track t(fail); p.v(i)[pos] = val; } m[pos] = val; } break;
            case 5: if (m.empty()) return; {
                size_t pos = n % m.size();
                unsigned char a, b;
                { Track t(fail); a = p.v(i)[pos]; const BA &cv = p.v(i); b = cv[pos]; }
                if (a != m[pos] || b != m[pos]) run.violation("C20", "byte_array_equals_vector", "index_read", fmt("pos=%zu read %02x/%02x want %02x", pos, a, b, m[pos]));
                break; }
            case 6: if (m.empty()) return; { size_t pos = n % m.size(); { Track t(fail); p.v(i).data()[pos] = val; } m[pos] = val; } break;
            case 7: { Track t(fail); p.v(i).resize(n); } m.resize(n); break;
            case 8: { { Track t(fail); p.v(i).reserve(n); } const BA &cv = p.v(i); if (cv.capacity() < n) run.violation("C20", "byte_array_equals_vector", "reserve", fmt("capacity %zu after reserve(%zu)", cv.capacity(), n)); break; }
            case 9: { Track t(fail); p.v(i).push_back(val); } m.push_back(val); break;
            case 10: if (m.empty()) return; { Track t(fail); p.v(i).pop_back(); } m.pop_back(); break;
            case 11: { Track t(fail); p.v(i).clear(); } m.clear(); break;
            case 12: {
                if (!p.live[j]) return;
                const BA &a = p.v(i), &b = p.v(j);
                const std::vector<unsigned char> &x = p.mirror[i], &y = p.mirror[j];
                bool r[6], w[6] = {x == y, x != y, x < y, x <= y, x > y, x >= y};
                { Track t(fail); r[0] = a == b; r[1] = a != b; r[2] = a < b; r[3] = a <= b; r[4] = a > b; r[5] = a >= b; }
                static const char *opn[6] = {"==", "!=", "<", "<=", ">", ">="};
                for (int k = 0; k < 6; ++k)
                    if (r[k] != w[k])
                        run.violation("C20", "byte_array_compare", std::string("operator") + opn[k],
                                      fmt("lhs %zu bytes [%s] %s rhs %zu bytes [%s]: byte_array says %d, std::vector says %d (lhs default-constructed=%d rhs=%d)",
                                          x.size(), hex(x.data(), x.size(), 8).c_str(), opn[k], y.size(), hex(y.data(), y.size(), 8).c_str(), (int)r[k], (int)w[k],
                                          (int)(a.capacity() == 0), (int)(b.capacity() == 0)));
                run.probe("ba.compare");
                break; }
            case 13: {
                Bytes seen, cseen;
                seen.reserve(m.size() * 2 + 64); // the mirror side must not allocate inside the tracked region
                { Track t(fail); for (BA::iterator it = p.v(i).begin(); it != p.v(i).end() && seen.size() < seen.capacity(); ++it) seen.push_back(*it); }
                { const BA &cv = p.v(i); for (BA::const_iterator it = cv.cbegin(); it != cv.cend(); ++it) cseen.push_back(*it); }
                if (seen != m || cseen != m) run.violation("C20", "byte_array_equals_vector", "iterate", fmt("iteration saw %zu/%zu bytes, mirror has %zu", seen.size(), cseen.size(), m.size()));
                break; }
            case 14: { Track t(fail); p.v(i).~BA(); p.live[i] = false; } m.clear(); break;
            // every mutable accessor, used as the FIRST mutable access to a possibly shared buffer, must hand out the variable's own bytes
            case 15: if (m.empty()) return; { { Track t(fail); *(p.v(i).end() - 1) = val; } m.back() = val; } break;
            case 16: if (m.empty()) return; { { Track t(fail); *p.v(i).begin() = val; } m.front() = val; } break;
            case 17: if (m.empty()) return; {
                ptrdiff_t span;
                {
                    Track t(fail);
                    BA::iterator e = p.v(i).end();   // end() first, begin() second: both must point into the same (own) buffer
                    BA::iterator b = p.v(i).begin();
                    span = e - b;
                    if (span == (ptrdiff_t)m.size()) { unsigned char x = val; for (BA::iterator it = b; it != e; ++it) *it = x++; }
                }
                if (span != (ptrdiff_t)m.size()) run.violation("C20", "byte_array_equals_vector", "end_then_begin_fill", fmt("end() - begin() = %td for a value of %zu bytes", span, m.size()));
                else { unsigned char x = val; for (size_t k = 0; k < m.size(); ++k) m[k] = x++; }
                break; }
            case 20: if (m.empty()) return; { // the argument refers to an element of the array itself (std::vector guarantees this works)
                size_t pos = n % m.size();
                { Track t(fail); const BA &cv = p.v(i); p.v(i).push_back(cv.data()[pos]); }
                m.push_back(m[pos]);
                break; }
            case 19: if (m.empty()) return; {
                // "any number of aliased values": a crowd of copies of one variable, one of them written to, all destroyed
                static const size_t crowd[8] = {2, 17, 254, 255, 256, 257, 300, 513};
                size_t nc = crowd[n % 8];
                BA *cp = (BA *)malloc(nc * sizeof(BA));
                size_t victim = (size_t)val % nc;
                { Track t; for (size_t k = 0; k < nc; ++k) new (&cp[k]) BA(p.v(i)); cp[victim].data()[0] ^= 0x5a; } // must detach: nobody else may change
                bool ok = true;
                for (size_t k = 0; k < nc && ok; ++k) {
                    Bytes o = observe(cp[k]);
                    Bytes want = m;
                    if (k == victim) want[0] ^= 0x5a;
                    ok = o == want;
                }
                if (!ok || observe(p.v(i)) != m)
                    run.violation("C20", "byte_array_equals_vector", "many_copies", fmt("%zu copies of one value, copy %zu written through data(): another holder of the value changed", nc, victim));
                { Track t; for (size_t k = 0; k < nc; ++k) cp[k].~BA(); }
                free(cp);
                run.probe("ba.crowd_of_copies");
                break; }
            case 18: if (m.empty()) return; { // reading through a const reference (index, data(), end()) must see the value and change no other variable
                const BA &cv = p.v(i);
                size_t pos = n % m.size();
                unsigned char a, b, c2;
                { Track t; a = cv[pos]; b = cv.data()[pos]; c2 = *(cv.end() - 1); }
                if (a != m[pos] || b != m[pos] || c2 != m.back()) run.violation("C20", "byte_array_equals_vector", "const_read", fmt("pos=%zu read %02x/%02x/%02x want %02x, last %02x", pos, a, b, c2, m[pos], m.back()));
                break; }
            }
        } catch (const std::bad_alloc &) {
            threw = true;
        }
        g_track = false;
        g_fail_at = 0;
        if (threw) {
            run.fault("mem.alloc_fail");
            // the operated-on variable may hold its old or new value (no strong guarantee is stated): resynchronise
            if (p.live[i]) p.mirror[i] = observe(p.v(i));
            else { Track t; new (p.mem[i]) BA(); p.live[i] = true; p.mirror[i].clear(); }
            check_all(run, p, i, nm);
        } else {
            if (fail && g_fired) run.violation("C20", "bad_alloc_swallowed", nm, "an injected allocation failure did not propagate as std::bad_alloc");
            check_all(run, p, -1, nm);
        }
        if (shared_before) run.probe("ba.op_on_shared_buffer");
        for (int k = 0; k < NVARS; ++k) if (p.live[k]) run.fold_bytes(observe(p.v(k)));
    }
#endif

    void exec(const Plan &plan, Run &run) override
    {
#if defined(ASCON_NO_STL)
        Pool *pool = new Pool();
        memset(pool->live, 0, sizeof pool->live);
        g_live = 0;
#endif
        int idx = 0;
        for (const Op &op : plan.ops) {
            run.cur_op = idx++;
            if (op.name.compare(0, 5, "knob.") == 0) continue;
            run.ops_done++;
            if (op.name == "hexenc") { run.task(0); do_hexenc(run, op); }
            else if (op.name == "hexdec") { run.task(0); do_hexdec(run, op); }
            else if (op.name == "hexcpp") { run.task(1); do_hexcpp(run, op); }
#if defined(ASCON_NO_STL)
            else if (op.name == "ba") { run.task(2 + (int64_t)(op.u(1) % NVARS)); do_ba(run, *pool, op); }
#endif
        }
#if defined(ASCON_NO_STL)
        {
            Track t;
            for (int k = 0; k < NVARS; ++k) if (pool->live[k]) { pool->v(k).~BA(); pool->live[k] = false; }
        }
        if (g_live != 0) run.violation("C20", "byte_array_allocation_balance", "destroy_all", fmt("%ld blocks still allocated after every variable was destroyed", g_live));
        delete pool;
#endif
    }
};

int main(int argc, char **argv)
{
    BytesWorld w;
    return worker_main(argc, argv, w);
}
