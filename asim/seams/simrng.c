#include "simrng.h"
#include <errno.h>
#include <string.h>
#include <sys/types.h>

static simrng_t g_default = {.seed = 0x5EEDF00Dull, .flip_pos = ~0ull};
static __thread simrng_t *t_cur;

simrng_t *simrng_cur(void) { return t_cur ? t_cur : &g_default; }
void simrng_use(simrng_t *s) { t_cur = s; }

void simrng_reset(simrng_t *s, uint64_t seed, int kind)
{
    memset(s, 0, sizeof(*s));
    s->seed = seed;
    s->kind = kind;
    s->flip_pos = ~0ull;
}

void simrng_arm(simrng_t *s, int transient, int perm_fail)
{
    s->transient = transient;
    s->perm_fail = perm_fail;
    s->armed_at = s->calls;
}

static uint64_t sm64(uint64_t x)
{
    x += 0x9E3779B97F4A7C15ull;
    x = (x ^ (x >> 30)) * 0xBF58476D1CE4E5B9ull;
    x = (x ^ (x >> 27)) * 0x94D049BB133111EBull;
    return x ^ (x >> 31);
}

uint8_t simrng_tape_byte(const simrng_t *s, uint64_t pos)
{
    uint8_t b;
    switch (s->kind) {
    case SIMRNG_ZERO: b = 0; break;
    case SIMRNG_ONES: b = 0xFF; break;
    case SIMRNG_CONST: b = (uint8_t)s->seed; break;
    case SIMRNG_PERIOD2: b = (uint8_t)(s->seed >> (8 * (pos % 2))); break;
    case SIMRNG_PERIOD3: b = (uint8_t)(s->seed >> (8 * (pos % 3))); break;
    case SIMRNG_COUNTER: b = (uint8_t)(pos + s->seed); break;
    default: b = (uint8_t)(sm64(s->seed ^ (pos >> 3) * 0xD1B54A32D192ED03ull) >> (8 * (pos & 7))); break;
    }
    if (pos == s->flip_pos) b ^= s->flip_mask;
    return b;
}

ssize_t __wrap_getrandom(void *buf, size_t len, unsigned flags)
{
    simrng_t *s = simrng_cur();
    (void)flags;
    if (s->on_call) s->on_call(s->on_call_ctx);
    s->calls++;
    if (s->transient > 0) {
        s->transient--;
        if (s->transient & 1) { s->eintr++; errno = EINTR; }
        else { s->eagain++; errno = EAGAIN; }
        return -1;
    }
    if (s->perm_fail > 0 || (s->perm_fail < 0 && s->calls - s->armed_at == (uint64_t)(-s->perm_fail))) {
        s->perm++;
        if (s->perm_observer) ++*s->perm_observer;
        errno = EIO;
        return -1;
    }
    /* Linux never splits requests of <= 256 bytes; larger ones are served whole here too */
    for (size_t i = 0; i < len; ++i) ((uint8_t *)buf)[i] = simrng_tape_byte(s, s->pos + i);
    s->pos += len;
    s->bytes += len;
    s->ok_calls++;
    return (ssize_t)len;
}
