#include "tape_trng.h"
#include "random/ascon-trng.h"
#include <string.h>

struct tape g_tape;

void tape_reset(int kind, uint64_t seed)
{
    memset(&g_tape, 0, sizeof g_tape);
    g_tape.kind = kind;
    g_tape.seed = seed;
}
void tape_mark(void) { g_tape.ndrawn = 0; }

int tape_drawn_distinct_nonzero(void)
{
    for (unsigned i = 0; i < g_tape.ndrawn && i < 64; ++i) {
        if (!g_tape.drawn[i]) return 0;
        for (unsigned j = 0; j < i; ++j) if (g_tape.drawn[i] == g_tape.drawn[j]) return 0;
    }
    return g_tape.ndrawn > 0 && g_tape.ndrawn <= 64;
}

static uint64_t sm64(uint64_t x)
{
    x += 0x9E3779B97F4A7C15ull;
    x = (x ^ (x >> 30)) * 0xBF58476D1CE4E5B9ull;
    x = (x ^ (x >> 27)) * 0x94D049BB133111EBull;
    return x ^ (x >> 31);
}

static uint64_t next64(void)
{
    uint64_t p = g_tape.pos++, v;
    switch (g_tape.kind) {
    case TAPE_ZERO: v = 0; break;
    case TAPE_ONES: v = ~0ull; break;
    case TAPE_CONST: v = g_tape.seed; break;
    case TAPE_PERIOD2: v = (p & 1) ? ~g_tape.seed : g_tape.seed; break;
    case TAPE_PERIOD3: v = sm64(g_tape.seed + p % 3); break;
    case TAPE_COUNTER: v = g_tape.seed + p; break;
    case TAPE_ADVERSARIAL: v = (p & 1) ? ((g_tape.adv >> 11) | (g_tape.adv << 53)) : g_tape.adv; break;
    default: v = sm64(g_tape.seed ^ (p * 0xD1B54A32D192ED03ull)); break;
    }
    if (g_tape.ndrawn < 64) g_tape.drawn[g_tape.ndrawn] = v;
    g_tape.ndrawn++;
    return v;
}

int ascon_trng_init(ascon_trng_state_t *state)
{
    memset(state, 0, sizeof(*state));
    g_tape.inits++;
    return g_tape.unhealthy ? 0 : 1;
}
void ascon_trng_free(ascon_trng_state_t *state)
{
    if (state) memset(state, 0, sizeof(*state));
    g_tape.frees++;
}
uint32_t ascon_trng_generate_32(ascon_trng_state_t *state) { (void)state; return (uint32_t)next64(); }
uint64_t ascon_trng_generate_64(ascon_trng_state_t *state) { (void)state; return next64(); }
int ascon_trng_reseed(ascon_trng_state_t *state) { (void)state; g_tape.reseeds++; return g_tape.unhealthy ? 0 : 1; }
