/* Simulator-owned system entropy source behind -Wl,--wrap=getrandom.
 * The library's real ascon_trng_generate()/mixer code runs on top of it. */
#ifndef ASIM_SIMRNG_H
#define ASIM_SIMRNG_H
#include <stdint.h>
#include <stddef.h>
#ifdef __cplusplus
extern "C" {
#endif

enum { SIMRNG_RANDOM = 0, SIMRNG_ZERO, SIMRNG_ONES, SIMRNG_CONST, SIMRNG_PERIOD2, SIMRNG_PERIOD3, SIMRNG_COUNTER };

typedef struct simrng {
    uint64_t seed;        /* tape = f(seed, position) */
    int kind;             /* tape kind */
    uint64_t pos;         /* bytes handed out so far */
    uint64_t flip_pos;    /* tape position whose byte is XORed with flip_mask */
    uint8_t flip_mask;
    /* fault script for the calls that follow */
    int transient;        /* next `transient` calls fail with EINTR/EAGAIN alternately */
    int perm_fail;        /* >0: every call fails with EIO; <0: calls number -perm_fail (1-based, counted from arm) fails */
    uint64_t armed_at;    /* value of `calls` when the script was armed */
    /* counters */
    uint64_t calls, ok_calls, bytes, eintr, eagain, perm;
    volatile long *perm_observer; /* when set: incremented for every permanent failure delivered (may live in shared memory) */
    void (*on_call)(void *ctx);   /* when set: called at the start of every request to the source (getrandom or device) */
    void *on_call_ctx;
} simrng_t;

simrng_t *simrng_cur(void);          /* state used by the calling thread */
void simrng_use(simrng_t *s);        /* per-thread override (NULL = process default) */
void simrng_reset(simrng_t *s, uint64_t seed, int kind);
void simrng_arm(simrng_t *s, int transient, int perm_fail);
uint8_t simrng_tape_byte(const simrng_t *s, uint64_t pos);

#ifdef __cplusplus
}
#endif
#endif
