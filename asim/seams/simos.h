/* Simulated operating system for the command-line tools: an in-memory file
 * system in a MAP_SHARED arena (so that the effects of a forked tool process
 * survive it), an fd table, stdin/stdout capture, and a per-process script of
 * syscall faults and crash points.  Reached by -Wl,--wrap=open,read,write,
 * close,unlink,isatty,fopen and by assigning stdin/stdout in the child. */
#ifndef ASIM_SIMOS_H
#define ASIM_SIMOS_H
#include <stddef.h>
#include <stdint.h>
#ifdef __cplusplus
extern "C" {
#endif

#define VFS_MAXFILES 20
#define VFS_MAXDATA (160 * 1024)
#define VFS_MAXNAME 9216
#define SIMOS_MAXFAULTS 12
#define SIMOS_STDOUT_MAX (64 * 1024)

enum { SYS_OPEN_R = 0, SYS_OPEN_W, SYS_READ, SYS_WRITE, SYS_CLOSE, SYS_UNLINK, SYS_FOPEN, SYS_FREAD, SYS_NKINDS };

enum {
    FK_NONE = 0,
    FK_EINTR,        /* transient: call fails with EINTR `arg` times in a row, then proceeds */
    FK_EAGAIN,       /* transient */
    FK_SHORT,        /* transient: transfers at most `arg` (>=1) bytes */
    FK_EIO,          /* hard */
    FK_ENOSPC,       /* hard (write) */
    FK_EACCES,       /* hard (open) */
    FK_CRASH,        /* write `arg` bytes of this write, then the process dies */
    FK_NKINDS
};

struct vfile {
    int used;
    size_t size;
    char name[VFS_MAXNAME];
    unsigned char data[VFS_MAXDATA];
};

struct simos_fault {
    int sys;       /* SYS_* */
    int ordinal;   /* 1-based call number of that kind within the process */
    int kind;      /* FK_* */
    long arg;
    int fired;
};

struct simos {
    struct vfile files[VFS_MAXFILES];
    /* script for the next process */
    int n_faults;
    struct simos_fault faults[SIMOS_MAXFAULTS];
    int io_chunk;          /* >0: every read/write transfers at most this many bytes (short I/O everywhere) */
    int eintr_every;       /* >0: every n-th read/write is first interrupted once (EINTR) */
    size_t disk_cap;       /* >0: total bytes the file system can hold; beyond it writes fail with ENOSPC */
    int stdin_file;        /* index of the file served on fd 0, or -1 */
    long syscall_cap;
    /* observations of the last process */
    long calls[SYS_NKINDS];
    long fired[FK_NKINDS];
    int cap_hit;
    int hard_fault_fired;  /* a fault of a hard kind fired */
    int enospc_by_cap;
    long rng_perm_fired;   /* permanent failures the entropy source delivered to the process */
    size_t stdout_len;
    unsigned char stdout_buf[SIMOS_STDOUT_MAX];
};

extern struct simos *g_os;

void simos_create(void);                 /* allocate the shared arena (once per worker) */
void simos_reset_fs(void);               /* empty file system */
void simos_reset_process(void);          /* clear script and observations */
int vfs_find(const char *name);
int vfs_put(const char *name, const unsigned char *data, size_t size);  /* returns index or -1 */
void vfs_remove(const char *name);
void simos_add_fault(int sys, int ordinal, int kind, long arg);
void simos_child_begin(void);            /* in the forked child: fd table, stdin/stdout streams */
void simos_child_end(void);              /* flush captured stdout */

#ifdef __cplusplus
}
#endif
#endif
