/* Link-time replacement of the five TRNG-mixer functions (world `masked` only):
 * every 32/64-bit value the masked code asks for comes straight from a tape
 * the simulator controls. */
#ifndef ASIM_TAPE_TRNG_H
#define ASIM_TAPE_TRNG_H
#include <stdint.h>
#ifdef __cplusplus
extern "C" {
#endif
enum { TAPE_RANDOM = 0, TAPE_ZERO, TAPE_ONES, TAPE_CONST, TAPE_PERIOD2, TAPE_PERIOD3, TAPE_COUNTER, TAPE_ADVERSARIAL, TAPE_NKINDS };
struct tape {
    int kind;
    uint64_t seed;
    uint64_t pos;         /* words drawn so far */
    uint64_t adv;         /* adversarial kind: the secret value currently being masked */
    uint64_t drawn[64];   /* words drawn since tape_mark() */
    unsigned ndrawn;
    uint64_t inits, frees, reseeds;
    int unhealthy;        /* 1: init/reseed report that the system source could not seed the generator (values still flow) */
};
extern struct tape g_tape;
void tape_reset(int kind, uint64_t seed);
void tape_mark(void);
int tape_drawn_distinct_nonzero(void);
#ifdef __cplusplus
}
#endif
#endif
