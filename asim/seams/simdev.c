/* The random DEVICES (/dev/urandom, /dev/random) as part of the simulator-owned system entropy source.
 * The library has a code path that opens and reads them (compile-time today; a run-time fallback is a legitimate
 * change), and a real device would be a source of nondeterminism the simulator does not decide.  Behind
 * -Wl,--wrap=open,--wrap=read,--wrap=close: opening a random device yields a private descriptor served from the
 * same tape as getrandom(); while a failure script is armed for the source the device is unavailable too (the
 * whole system source is failing, whatever route the library takes to it). */
#define _GNU_SOURCE
#include "simrng.h"
#include <errno.h>
#include <fcntl.h>
#include <stdarg.h>
#include <string.h>
#include <sys/types.h>
#include <unistd.h>

int __real_open(const char *path, int flags, ...);
ssize_t __real_read(int fd, void *buf, size_t n);
int __real_close(int fd);

#define SIMDEV_FD 0x5EED0

static int is_random_device(const char *p)
{
    return p && (!strcmp(p, "/dev/urandom") || !strcmp(p, "/dev/random"));
}

int __wrap_open(const char *path, int flags, ...)
{
    mode_t mode = 0;
    if (flags & O_CREAT) {
        va_list ap;
        va_start(ap, flags);
        mode = (mode_t)va_arg(ap, int);
        va_end(ap);
    }
    if (is_random_device(path)) {
        simrng_t *s = simrng_cur();
        if (s->on_call) s->on_call(s->on_call_ctx);
        s->calls++;
        if (s->transient > 0 || s->perm_fail != 0) {
            s->perm++;
            if (s->perm_observer) ++*s->perm_observer;
            errno = ENOENT;
            return -1;
        }
        return SIMDEV_FD;
    }
    return __real_open(path, flags, mode);
}

ssize_t __wrap_read(int fd, void *buf, size_t n)
{
    if (fd == SIMDEV_FD) {
        simrng_t *s = simrng_cur();
        for (size_t i = 0; i < n; ++i) ((uint8_t *)buf)[i] = simrng_tape_byte(s, s->pos + i);
        s->pos += n;
        s->bytes += n;
        s->ok_calls++;
        return (ssize_t)n;
    }
    return __real_read(fd, buf, n);
}

int __wrap_close(int fd)
{
    if (fd == SIMDEV_FD) return 0;
    return __real_close(fd);
}
