#define _GNU_SOURCE
#include "simos.h"
#include <errno.h>
#include <fcntl.h>
#include <stdarg.h>
#include <stdio.h>
#include <stdlib.h>
#include <string.h>
#include <sys/mman.h>
#include <sys/types.h>
#include <unistd.h>

struct simos *g_os;

/* process-local fd table */
#define MAXFD 32
static struct { int used; int file; size_t off; int writable; } fdt[MAXFD];

void simos_create(void)
{
    if (g_os) return;
    g_os = mmap(0, sizeof(struct simos), PROT_READ | PROT_WRITE, MAP_SHARED | MAP_ANONYMOUS, -1, 0);
    if (g_os == MAP_FAILED) { perror("mmap simos"); _exit(2); }
    g_os->stdin_file = -1;
}

void simos_reset_fs(void)
{
    for (int i = 0; i < VFS_MAXFILES; ++i) { g_os->files[i].used = 0; g_os->files[i].size = 0; }
}

void simos_reset_process(void)
{
    g_os->n_faults = 0;
    g_os->io_chunk = 0;
    g_os->eintr_every = 0;
    g_os->stdin_file = -1;
    g_os->syscall_cap = 400000;
    memset(g_os->calls, 0, sizeof g_os->calls);
    memset(g_os->fired, 0, sizeof g_os->fired);
    g_os->cap_hit = 0;
    g_os->hard_fault_fired = 0;
    g_os->rng_perm_fired = 0;
    g_os->enospc_by_cap = 0;
    g_os->stdout_len = 0;
}

int vfs_find(const char *name)
{
    for (int i = 0; i < VFS_MAXFILES; ++i)
        if (g_os->files[i].used && strcmp(g_os->files[i].name, name) == 0) return i;
    return -1;
}

static int vfs_create(const char *name)
{
    if (strlen(name) >= VFS_MAXNAME) return -1;
    for (int i = 0; i < VFS_MAXFILES; ++i)
        if (!g_os->files[i].used) {
            g_os->files[i].used = 1;
            g_os->files[i].size = 0;
            strcpy(g_os->files[i].name, name);
            return i;
        }
    return -1;
}

int vfs_put(const char *name, const unsigned char *data, size_t size)
{
    int i = vfs_find(name);
    if (i < 0) i = vfs_create(name);
    if (i < 0 || size > VFS_MAXDATA) return -1;
    if (size) memcpy(g_os->files[i].data, data, size);
    g_os->files[i].size = size;
    return i;
}

void vfs_remove(const char *name)
{
    int i = vfs_find(name);
    if (i >= 0) g_os->files[i].used = 0;
}

void simos_add_fault(int sys, int ordinal, int kind, long arg)
{
    if (g_os->n_faults >= SIMOS_MAXFAULTS) return;
    struct simos_fault *f = &g_os->faults[g_os->n_faults++];
    f->sys = sys; f->ordinal = ordinal; f->kind = kind; f->arg = arg; f->fired = 0;
}

static size_t disk_used(void)
{
    size_t n = 0;
    for (int i = 0; i < VFS_MAXFILES; ++i) if (g_os->files[i].used) n += g_os->files[i].size;
    return n;
}

static void count_call(int sys)
{
    long total = 0;
    g_os->calls[sys]++;
    for (int i = 0; i < SYS_NKINDS; ++i) total += g_os->calls[i];
    if (total > g_os->syscall_cap) { g_os->cap_hit = 1; _exit(99); }
}

/* the scripted fault for this call, if any */
static struct simos_fault *fault_for(int sys)
{
    for (int i = 0; i < g_os->n_faults; ++i) {
        struct simos_fault *f = &g_os->faults[i];
        if (f->sys != sys) continue;
        if (f->kind == FK_EINTR || f->kind == FK_EAGAIN) {
            /* a burst: calls ordinal .. ordinal+arg-1 */
            if (g_os->calls[sys] >= f->ordinal && g_os->calls[sys] < f->ordinal + (f->arg > 0 ? f->arg : 1)) return f;
        } else if (g_os->calls[sys] == f->ordinal) return f;
    }
    return 0;
}

static void fire(struct simos_fault *f)
{
    f->fired++;
    g_os->fired[f->kind]++;
    if (f->kind == FK_EIO || f->kind == FK_ENOSPC || f->kind == FK_EACCES) g_os->hard_fault_fired = 1;
}

static int alloc_fd(int file, int writable)
{
    for (int fd = 3; fd < MAXFD; ++fd)
        if (!fdt[fd].used) { fdt[fd].used = 1; fdt[fd].file = file; fdt[fd].off = 0; fdt[fd].writable = writable; return fd; }
    errno = EMFILE;
    return -1;
}

int __wrap_open(const char *path, int flags, ...)
{
    int wr = (flags & O_ACCMODE) != O_RDONLY;
    int sys = wr ? SYS_OPEN_W : SYS_OPEN_R;
    count_call(sys);
    struct simos_fault *f = fault_for(sys);
    if (f) {
        fire(f);
        errno = f->kind == FK_EINTR ? EINTR : f->kind == FK_ENOSPC ? ENOSPC : f->kind == FK_EIO ? EIO : EACCES;
        if (f->kind == FK_EINTR || f->kind == FK_EAGAIN) g_os->hard_fault_fired = 1; /* open() is not retried by the tools */
        return -1;
    }
    int i = vfs_find(path);
    if (i < 0) {
        if (!(flags & O_CREAT)) { errno = ENOENT; return -1; }
        if (path[0] == '\0') { errno = ENOENT; return -1; }
        if (strlen(path) >= VFS_MAXNAME || strlen(path) > 4096) { errno = ENAMETOOLONG; return -1; }
        i = vfs_create(path);
        if (i < 0) { errno = ENOSPC; g_os->hard_fault_fired = 1; return -1; }
    }
    if (wr && (flags & O_TRUNC)) g_os->files[i].size = 0;
    return alloc_fd(i, wr);
}

static ssize_t transfer_limit(size_t len, struct simos_fault *f)
{
    size_t n = len;
    if (g_os->io_chunk > 0 && n > (size_t)g_os->io_chunk) { n = (size_t)g_os->io_chunk; g_os->fired[FK_SHORT]++; }
    if (f && f->kind == FK_SHORT) { size_t a = f->arg > 0 ? (size_t)f->arg : 1; if (n > a) n = a; fire(f); }
    return (ssize_t)n;
}

ssize_t __wrap_read(int fd, void *buf, size_t len)
{
    count_call(SYS_READ);
    if (g_os->eintr_every > 0 && len > 0 && g_os->calls[SYS_READ] % g_os->eintr_every == 0) { g_os->fired[FK_EINTR]++; errno = EINTR; return -1; }
    struct simos_fault *f = fault_for(SYS_READ);
    if (f && (f->kind == FK_EINTR || f->kind == FK_EAGAIN)) { fire(f); errno = f->kind == FK_EINTR ? EINTR : EAGAIN; return -1; }
    if (f && f->kind == FK_EIO) { fire(f); errno = EIO; return -1; }
    int file;
    size_t *off;
    static size_t stdin_off;
    if (fd == 0) {
        if (g_os->stdin_file < 0) return 0;
        file = g_os->stdin_file;
        off = &stdin_off;
    } else {
        if (fd < 0 || fd >= MAXFD || !fdt[fd].used) { errno = EBADF; return -1; }
        file = fdt[fd].file;
        off = &fdt[fd].off;
    }
    struct vfile *v = &g_os->files[file];
    size_t avail = *off < v->size ? v->size - *off : 0;
    size_t n = (size_t)transfer_limit(len < avail ? len : avail, f);
    if (n) memcpy(buf, v->data + *off, n);
    *off += n;
    return (ssize_t)n;
}

ssize_t __wrap_write(int fd, const void *buf, size_t len)
{
    count_call(SYS_WRITE);
    if (g_os->eintr_every > 0 && len > 0 && g_os->calls[SYS_WRITE] % g_os->eintr_every == 0) { g_os->fired[FK_EINTR]++; errno = EINTR; return -1; }
    struct simos_fault *f = fault_for(SYS_WRITE);
    if (f && (f->kind == FK_EINTR || f->kind == FK_EAGAIN)) { fire(f); errno = f->kind == FK_EINTR ? EINTR : EAGAIN; return -1; }
    if (f && (f->kind == FK_EIO || f->kind == FK_ENOSPC) && len > 0) { fire(f); errno = f->kind == FK_EIO ? EIO : ENOSPC; return -1; }
    size_t n = (size_t)transfer_limit(len, f);
    int crash = 0;
    if (f && f->kind == FK_CRASH && len > 0) { fire(f); n = (size_t)(f->arg < 0 ? 0 : f->arg) % (len + 1); crash = 1; }
    if (fd == 1 || fd == 2) {
        if (fd == 1) {
            size_t room = SIMOS_STDOUT_MAX - g_os->stdout_len;
            size_t m = n < room ? n : room;
            memcpy(g_os->stdout_buf + g_os->stdout_len, buf, m);
            g_os->stdout_len += m;
        }
        if (crash) _exit(137);
        return (ssize_t)n;
    }
    if (fd < 0 || fd >= MAXFD || !fdt[fd].used || !fdt[fd].writable) { errno = EBADF; return -1; }
    struct vfile *v = &g_os->files[fdt[fd].file];
    if (g_os->disk_cap > 0 && n > 0) {
        size_t used = disk_used();
        size_t room = used < g_os->disk_cap ? g_os->disk_cap - used : 0;
        if (room == 0) { g_os->enospc_by_cap = 1; g_os->hard_fault_fired = 1; g_os->fired[FK_ENOSPC]++; errno = ENOSPC; return -1; }
        if (n > room) n = room; /* short write first, ENOSPC on the next call */
    }
    if (fdt[fd].off + n > VFS_MAXDATA) { g_os->hard_fault_fired = 1; errno = EFBIG; return -1; }
    if (n) memcpy(v->data + fdt[fd].off, buf, n);
    fdt[fd].off += n;
    if (fdt[fd].off > v->size) v->size = fdt[fd].off;
    if (crash) _exit(137);
    return (ssize_t)n;
}

int __wrap_close(int fd)
{
    count_call(SYS_CLOSE);
    if (fd < 3) return 0;
    if (fd >= MAXFD || !fdt[fd].used) { errno = EBADF; return -1; }
    fdt[fd].used = 0;
    return 0;
}

int __wrap_unlink(const char *path)
{
    count_call(SYS_UNLINK);
    int i = vfs_find(path);
    if (i < 0) { errno = ENOENT; return -1; }
    g_os->files[i].used = 0;
    return 0;
}

int __wrap_isatty(int fd) { (void)fd; return 0; }

/* ---- stdio side (asconsum): fopen -> fopencookie over the same files ------ */
struct cookie { int file; size_t off; };

static ssize_t ck_read(void *c, char *buf, size_t len)
{
    struct cookie *k = c;
    count_call(SYS_FREAD);
    struct simos_fault *f = fault_for(SYS_FREAD);
    if (f && f->kind == FK_EIO) { fire(f); errno = EIO; return -1; }
    if (k->file < 0) return 0;
    struct vfile *v = &g_os->files[k->file];
    size_t avail = k->off < v->size ? v->size - k->off : 0;
    size_t n = (size_t)transfer_limit(len < avail ? len : avail, f);
    if (n) memcpy(buf, v->data + k->off, n);
    k->off += n;
    return (ssize_t)n;
}
static int ck_close(void *c) { free(c); return 0; }
static ssize_t out_write(void *c, const char *buf, size_t len)
{
    (void)c;
    size_t room = SIMOS_STDOUT_MAX - g_os->stdout_len;
    size_t m = len < room ? len : room;
    memcpy(g_os->stdout_buf + g_os->stdout_len, buf, m);
    g_os->stdout_len += m;
    return (ssize_t)len;
}

FILE *__wrap_fopen(const char *path, const char *mode)
{
    count_call(SYS_FOPEN);
    struct simos_fault *f = fault_for(SYS_FOPEN);
    if (f) { fire(f); g_os->hard_fault_fired = 1; errno = EACCES; return 0; }
    if (mode[0] != 'r') { errno = EACCES; return 0; }
    int i = vfs_find(path);
    if (i < 0) { errno = ENOENT; return 0; }
    struct cookie *k = malloc(sizeof *k);
    k->file = i;
    k->off = 0;
    cookie_io_functions_t io = {ck_read, 0, 0, ck_close};
    return fopencookie(k, "r", io);
}

void simos_child_begin(void)
{
    memset(fdt, 0, sizeof fdt);
    cookie_io_functions_t out = {0, out_write, 0, 0};
    stdout = fopencookie(0, "w", out);
    struct cookie *k = malloc(sizeof *k);
    k->file = g_os->stdin_file;
    k->off = 0;
    cookie_io_functions_t io = {ck_read, 0, 0, ck_close};
    stdin = fopencookie(k, "r", io);
}

void simos_child_end(void) { fflush(stdout); }
