// Reference ASCON permutation (forward and inverse) on the canonical 40-byte
// big-endian state.  Used only by oracles that need p^-1; self-tested against
// the library (p_ref == ascon_permute and p^-1(p(x)) == x) at start-up.
#pragma once
#include <cstdint>
#include <cstring>
#include <string>
#include <ascon/permutation.h>

namespace ascon_ref {

static inline uint64_t ror(uint64_t x, int n) { return (x >> n) | (x << (64 - n)); }

static const uint8_t SBOX[32] = {0x4, 0xb, 0x1f, 0x14, 0x1a, 0x15, 0x9, 0x2, 0x1b, 0x5, 0x8, 0x12, 0x1d, 0x3, 0x6, 0x1c,
                                 0x1e, 0x13, 0x7, 0xe, 0x0, 0xd, 0x11, 0x18, 0x10, 0xc, 0x1, 0x19, 0x16, 0xa, 0xf, 0x17};

static inline void load(uint64_t x[5], const uint8_t b[40])
{
    for (int i = 0; i < 5; ++i) {
        uint64_t v = 0;
        for (int k = 0; k < 8; ++k) v = (v << 8) | b[8 * i + k];
        x[i] = v;
    }
}
static inline void store(uint8_t b[40], const uint64_t x[5])
{
    for (int i = 0; i < 5; ++i)
        for (int k = 0; k < 8; ++k) b[8 * i + k] = (uint8_t)(x[i] >> (56 - 8 * k));
}

static inline void sbox_layer(uint64_t x[5], const uint8_t table[32])
{
    uint64_t y[5] = {0, 0, 0, 0, 0};
    for (int j = 0; j < 64; ++j) {
        unsigned v = 0;
        for (int i = 0; i < 5; ++i) v = (v << 1) | (unsigned)((x[i] >> j) & 1);
        unsigned w = table[v];
        for (int i = 0; i < 5; ++i) y[i] |= (uint64_t)((w >> (4 - i)) & 1) << j;
    }
    memcpy(x, y, sizeof y);
}

static const int ROT[5][2] = {{19, 28}, {61, 39}, {1, 6}, {10, 17}, {7, 41}};

static inline uint64_t sigma(uint64_t v, int i) { return v ^ ror(v, ROT[i][0]) ^ ror(v, ROT[i][1]); }

static inline void round_fwd(uint64_t x[5], int r)
{
    x[2] ^= (uint64_t)(((0xf - r) << 4) | r);
    sbox_layer(x, SBOX);
    for (int i = 0; i < 5; ++i) x[i] = sigma(x[i], i);
}

static inline void round_inv(uint64_t x[5], int r)
{
    static uint8_t INV[32];
    static bool init = false;
    if (!init) { for (int i = 0; i < 32; ++i) INV[SBOX[i]] = (uint8_t)i; init = true; }
    // a circulant over GF(2) of size 64 with an odd number of taps satisfies M^64 = I, so M^-1 = M^63
    for (int i = 0; i < 5; ++i) { uint64_t v = x[i]; for (int k = 0; k < 63; ++k) v = sigma(v, i); x[i] = v; }
    sbox_layer(x, INV);
    x[2] ^= (uint64_t)(((0xf - r) << 4) | r);
}

static inline void permute(uint8_t b[40], int first_round)
{
    uint64_t x[5];
    load(x, b);
    for (int r = first_round; r < 12; ++r) round_fwd(x, r);
    store(b, x);
}
static inline void permute_inverse(uint8_t b[40], int first_round)
{
    uint64_t x[5];
    load(x, b);
    for (int r = 11; r >= first_round; --r) round_inv(x, r);
    store(b, x);
}

// library permutation on canonical bytes through the public API only
static inline void lib_permute(uint8_t b[40], int first_round)
{
    ascon_state_t st;
    ascon_init(&st);
    ascon_overwrite_bytes(&st, b, 0, 40);
    ascon_permute(&st, (uint8_t)first_round);
    ascon_extract_bytes(&st, b, 0, 40);
    ascon_free(&st);
}

static inline bool selftest(std::string &err)
{
    uint64_t s = 0x1234567;
    for (int t = 0; t < 24; ++t) {
        uint8_t a[40], b[40], c[40];
        for (int i = 0; i < 40; ++i) { s = s * 6364136223846793005ULL + 1442695040888963407ULL; a[i] = (uint8_t)(s >> 33); }
        int fr = t % 12;
        memcpy(b, a, 40);
        memcpy(c, a, 40);
        permute(b, fr);
        lib_permute(c, fr);
        if (memcmp(b, c, 40) != 0) { err = "reference permutation disagrees with ascon_permute (model cannot be trusted)"; return false; }
        permute_inverse(b, fr);
        if (memcmp(b, a, 40) != 0) { err = "reference inverse permutation is not the inverse"; return false; }
    }
    return true;
}

} // namespace ascon_ref
