// Reference ASCON permutation (forward and inverse) on the canonical 40-byte
// big-endian state, written from the specification (5-bit S-box table, the five
// rotation pairs, the round constants).  The model is trusted on its own
// evidence: selftest() compares it with known answers embedded here (p12 of the
// all-zero state; a digest over 24 pseudo-random states through every
// first_round) and checks p^-1(p(x)) == x -- it never asks the library under
// test.  Whether the *library's* permutation agrees with the model is recorded
// separately (lib_agrees) so that a broken library permutation is a finding for
// the checks that compare outputs, not a reason to distrust the model.
#pragma once
#include <cstdint>
#include <cstring>
#include <string>
#include <ascon/permutation.h>

namespace ascon_ref {

static inline uint64_t ror(uint64_t x, int n) { return (x >> n) | (x << (64 - n)); }

static const uint8_t SBOX[32] = {0x4, 0xb, 0x1f, 0x14, 0x1a, 0x15, 0x9, 0x2, 0x1b, 0x5, 0x8, 0x12, 0x1d, 0x3, 0x6, 0x1c,
                                 0x1e, 0x13, 0x7, 0xe, 0x0, 0xd, 0x11, 0x18, 0x10, 0xc, 0x1, 0x19, 0x16, 0xa, 0xf, 0x17};

static inline void load(uint64_t x[5], const uint8_t b[40])
{
    for (int i = 0; i < 5; ++i) {
        uint64_t v = 0;
        for (int k = 0; k < 8; ++k) v = (v << 8) | b[8 * i + k];
        x[i] = v;
    }
}
static inline void store(uint8_t b[40], const uint64_t x[5])
{
    for (int i = 0; i < 5; ++i)
        for (int k = 0; k < 8; ++k) b[8 * i + k] = (uint8_t)(x[i] >> (56 - 8 * k));
}

static inline void sbox_layer(uint64_t x[5], const uint8_t table[32])
{
    uint64_t y[5] = {0, 0, 0, 0, 0};
    for (int j = 0; j < 64; ++j) {
        unsigned v = 0;
        for (int i = 0; i < 5; ++i) v = (v << 1) | (unsigned)((x[i] >> j) & 1);
        unsigned w = table[v];
        for (int i = 0; i < 5; ++i) y[i] |= (uint64_t)((w >> (4 - i)) & 1) << j;
    }
    memcpy(x, y, sizeof y);
}

static const int ROT[5][2] = {{19, 28}, {61, 39}, {1, 6}, {10, 17}, {7, 41}};

static inline uint64_t sigma(uint64_t v, int i) { return v ^ ror(v, ROT[i][0]) ^ ror(v, ROT[i][1]); }

static inline void round_fwd(uint64_t x[5], int r)
{
    x[2] ^= (uint64_t)(((0xf - r) << 4) | r);
    sbox_layer(x, SBOX);
    for (int i = 0; i < 5; ++i) x[i] = sigma(x[i], i);
}

static inline void round_inv(uint64_t x[5], int r)
{
    static uint8_t INV[32];
    static bool init = false;
    if (!init) { for (int i = 0; i < 32; ++i) INV[SBOX[i]] = (uint8_t)i; init = true; }
    // a circulant over GF(2) of size 64 with an odd number of taps satisfies M^64 = I, so M^-1 = M^63
    for (int i = 0; i < 5; ++i) { uint64_t v = x[i]; for (int k = 0; k < 63; ++k) v = sigma(v, i); x[i] = v; }
    sbox_layer(x, INV);
    x[2] ^= (uint64_t)(((0xf - r) << 4) | r);
}

static inline void permute(uint8_t b[40], int first_round)
{
    uint64_t x[5];
    load(x, b);
    for (int r = first_round; r < 12; ++r) round_fwd(x, r);
    store(b, x);
}
static inline void permute_inverse(uint8_t b[40], int first_round)
{
    uint64_t x[5];
    load(x, b);
    for (int r = 11; r >= first_round; --r) round_inv(x, r);
    store(b, x);
}

// word-parallel forward permutation (boolean S-box formulas); validated against the table-driven one in selftest()
static inline void permute_fast(uint8_t b[40], int first_round)
{
    uint64_t x[5];
    load(x, b);
    for (int r = first_round; r < 12; ++r) {
        uint64_t x0 = x[0], x1 = x[1], x2 = x[2] ^ (uint64_t)(((0xf - r) << 4) | r), x3 = x[3], x4 = x[4];
        x0 ^= x4; x4 ^= x3; x2 ^= x1;
        uint64_t t0 = ~x0 & x1, t1 = ~x1 & x2, t2 = ~x2 & x3, t3 = ~x3 & x4, t4 = ~x4 & x0;
        x0 ^= t1; x1 ^= t2; x2 ^= t3; x3 ^= t4; x4 ^= t0;
        x1 ^= x0; x0 ^= x4; x3 ^= x2; x2 = ~x2;
        x[0] = sigma(x0, 0); x[1] = sigma(x1, 1); x[2] = sigma(x2, 2); x[3] = sigma(x3, 3); x[4] = sigma(x4, 4);
    }
    store(b, x);
}

// library permutation on canonical bytes through the public API only
static inline void lib_permute(uint8_t b[40], int first_round)
{
    ascon_state_t st;
    ascon_init(&st);
    ascon_overwrite_bytes(&st, b, 0, 40);
    ascon_permute(&st, (uint8_t)first_round);
    ascon_extract_bytes(&st, b, 0, 40);
    ascon_free(&st);
}

static inline uint64_t lcg_fill(uint64_t s, uint8_t a[40])
{
    for (int i = 0; i < 40; ++i) { s = s * 6364136223846793005ULL + 1442695040888963407ULL; a[i] = (uint8_t)(s >> 33); }
    return s;
}

// Model-only self test: no library call.
static inline bool selftest(std::string &err)
{
    static const uint8_t P12_ZERO[40] = {0x78, 0xea, 0x7a, 0xe5, 0xcf, 0xeb, 0xb1, 0x08, 0x9b, 0x9b, 0xfb, 0x85, 0x13, 0xb5, 0x60, 0xf7,
                                         0x69, 0x37, 0xf8, 0x3e, 0x03, 0xd1, 0x1a, 0x50, 0x3f, 0xe5, 0x3f, 0x36, 0xf2, 0xc1, 0x17, 0x8c,
                                         0x04, 0x5d, 0x64, 0x8e, 0x4d, 0xef, 0x12, 0xc9};
    uint8_t z[40];
    memset(z, 0, 40);
    permute(z, 0);
    if (memcmp(z, P12_ZERO, 40) != 0) { err = "reference permutation fails its embedded known answer (p12 of zero)"; return false; }
    uint64_t s = 0x1234567, h = 0xcbf29ce484222325ULL;
    for (int t = 0; t < 24; ++t) {
        uint8_t a[40], b[40], c[40];
        s = lcg_fill(s, a);
        int fr = t % 12;
        memcpy(b, a, 40);
        memcpy(c, a, 40);
        permute(b, fr);
        permute_fast(c, fr);
        if (memcmp(b, c, 40) != 0) { err = "word-parallel reference permutation disagrees with the table-driven one"; return false; }
        for (int i = 0; i < 40; ++i) { h ^= b[i]; h *= 0x100000001b3ULL; }
        permute_inverse(b, fr);
        if (memcmp(b, a, 40) != 0) { err = "reference inverse permutation is not the inverse"; return false; }
    }
    if (h != 0x70c15d2537face54ULL) { err = "reference permutation fails its embedded known-answer digest"; return false; }
    return true;
}

// Does the library permutation under test agree with the model for this first_round?  (cached; 8 states per round)
static inline bool lib_agrees(int first_round)
{
    static int cache[13];
    if (first_round < 0 || first_round > 12) return false;
    if (cache[first_round]) return cache[first_round] > 0;
    uint64_t s = 0x9e3779b97f4a7c15ULL + (uint64_t)first_round;
    bool ok = true;
    for (int t = 0; t < 8 && ok; ++t) {
        uint8_t a[40], b[40];
        s = lcg_fill(s, a);
        memcpy(b, a, 40);
        permute_fast(a, first_round);
        lib_permute(b, first_round);
        ok = memcmp(a, b, 40) == 0;
    }
    cache[first_round] = ok ? 1 : -1;
    return ok;
}

} // namespace ascon_ref
