// Reference models of the documented ASCON-SIV construction and of ISAP v2.0
// (ISAP-A-128A / ISAP-A-128 / the 160-bit-key variant), written over the
// reference permutation of ascon_ref.h -- no library code is involved, so the
// models stay right (and their KAT self-test keeps passing) when the library
// under test is wrong, including when its permutation is.  Self-tested against
// the repository's own KAT files at start-up.
#pragma once
#include <cstdint>
#include <cstring>
#include <string>
#include <vector>
#include <fstream>
#include "models/ascon_ref.h"

namespace modes_ref {

typedef std::vector<uint8_t> Bytes;

struct St {
    uint8_t b[40];
    St() { memset(b, 0, 40); }
    void perm(int rounds) { ascon_ref::permute_fast(b, 12 - rounds); }
    void xorb(const uint8_t *d, size_t off, size_t n) { for (size_t i = 0; i < n; ++i) b[off + i] ^= d[i]; }
    void set(const uint8_t *d, size_t off, size_t n) { memcpy(b + off, d, n); }
};

// ---- SIV --------------------------------------------------------------------
struct SivParams { int alg; size_t klen, rate; int b_rounds; };
static inline SivParams siv_params(int alg) // 0: 128, 1: 128a, 2: 80pq
{
    if (alg == 0) return {0, 16, 8, 6};
    if (alg == 1) return {1, 16, 16, 8};
    return {2, 20, 8, 6};
}
static inline void siv_init(St &s, const SivParams &p, uint8_t ivbyte, const uint8_t *k, const uint8_t *n)
{
    s = St();
    if (p.alg == 2) {
        uint8_t iv[4] = {(uint8_t)(0xa0 | ivbyte), 0x40, 0x0c, 0x06};
        s.set(iv, 0, 4);
        s.set(k, 4, 20);
        s.set(n, 24, 16);
        s.perm(12);
        s.xorb(k, 20, 20);
    } else {
        uint8_t iv[8] = {(uint8_t)(0x80 | ivbyte), (uint8_t)(p.alg == 1 ? 0x80 : 0x40), 0x0c, (uint8_t)(p.alg == 1 ? 0x08 : 0x06), 0, 0, 0, 0};
        s.set(iv, 0, 8);
        s.set(k, 8, 16);
        s.set(n, 24, 16);
        s.perm(12);
        s.xorb(k, 24, 16);
    }
}
static inline void siv_absorb(St &s, const SivParams &p, const uint8_t *d, size_t len, bool last_permute)
{
    while (len >= p.rate) { s.xorb(d, 0, p.rate); s.perm(p.b_rounds); d += p.rate; len -= p.rate; }
    if (len) s.xorb(d, 0, len);
    s.b[len] ^= 0x80;
    if (last_permute) s.perm(p.b_rounds);
}
static inline Bytes siv_encrypt(int alg, const Bytes &k, const Bytes &n, const Bytes &ad, const Bytes &m)
{
    SivParams p = siv_params(alg);
    St s;
    siv_init(s, p, 1, k.data(), n.data());
    if (!ad.empty()) siv_absorb(s, p, ad.data(), ad.size(), true);
    s.b[39] ^= 1;
    siv_absorb(s, p, m.data(), m.size(), false);
    if (alg == 2) { s.xorb(k.data(), 8, 20); s.perm(12); s.xorb(k.data() + 4, 24, 16); }
    else { s.xorb(k.data(), p.rate, 16); s.perm(12); s.xorb(k.data(), 24, 16); }
    uint8_t tag[16];
    memcpy(tag, s.b + 24, 16);
    // keystream pass: the tag is the nonce; permute, then squeeze (OFB)
    Bytes c(m.size() + 16);
    siv_init(s, p, 2, k.data(), tag);
    size_t pos = 0;
    while (pos < m.size()) {
        s.perm(p.b_rounds);
        size_t nb = std::min(p.rate, m.size() - pos);
        for (size_t i = 0; i < nb; ++i) c[pos + i] = m[pos + i] ^ s.b[i];
        pos += nb;
    }
    memcpy(c.data() + m.size(), tag, 16);
    return c;
}

// ---- ISAP -------------------------------------------------------------------
struct IsapParams { size_t klen; int sH, sE, sB, sK; };
static inline IsapParams isap_params(int alg) // 0: ISAP-A-128, 1: ISAP-A-128A, 2: 80PQ
{
    if (alg == 1) return {16, 12, 6, 1, 12};
    if (alg == 2) return {20, 12, 12, 12, 12};
    return {16, 12, 12, 12, 12};
}
static inline void isap_iv(uint8_t iv[8], const IsapParams &p, uint8_t which)
{
    iv[0] = which; iv[1] = (uint8_t)(p.klen * 8); iv[2] = 64; iv[3] = 1;
    iv[4] = (uint8_t)p.sH; iv[5] = (uint8_t)p.sB; iv[6] = (uint8_t)p.sE; iv[7] = (uint8_t)p.sK;
}
struct IsapKey { St ke, ka; };
static inline IsapKey isap_expand(const IsapParams &p, const uint8_t *k)
{
    IsapKey pk;
    uint8_t iv[8];
    isap_iv(iv, p, 3);
    pk.ke.set(k, 0, p.klen); pk.ke.set(iv, p.klen, 8); pk.ke.perm(p.sK);
    isap_iv(iv, p, 2);
    pk.ka.set(k, 0, p.klen); pk.ka.set(iv, p.klen, 8); pk.ka.perm(p.sK);
    return pk;
}
static inline St isap_rekey(const IsapParams &p, const St &base, const uint8_t *data, size_t len)
{
    St s = base;
    size_t nbits = len * 8;
    for (size_t bit = 0; bit < nbits; ++bit) {
        s.b[0] ^= (uint8_t)((data[bit / 8] << (bit % 8)) & 0x80);
        s.perm(bit + 1 < nbits ? p.sB : p.sK);
    }
    return s;
}
static inline void isap_crypt(const IsapParams &p, const IsapKey &pk, const uint8_t *n, uint8_t *c, const uint8_t *m, size_t len)
{
    St s = isap_rekey(p, pk.ke, n, 16);
    s.set(n, 24, 16);
    size_t pos = 0;
    while (pos < len) {
        s.perm(p.sE);
        size_t nb = std::min<size_t>(8, len - pos);
        for (size_t i = 0; i < nb; ++i) c[pos + i] = m[pos + i] ^ s.b[i];
        pos += nb;
    }
}
static inline void isap_absorb(St &s, const IsapParams &p, const uint8_t *d, size_t len)
{
    while (len >= 8) { s.xorb(d, 0, 8); s.perm(p.sH); d += 8; len -= 8; }
    if (len) s.xorb(d, 0, len);
    s.b[len] ^= 0x80;
    s.perm(p.sH);
}
static inline void isap_mac(const IsapParams &p, const IsapKey &pk, const uint8_t *n, const Bytes &ad, const uint8_t *c, size_t clen, uint8_t tag[16])
{
    St s;
    uint8_t iv[8];
    isap_iv(iv, p, 1);
    s.set(n, 0, 16);
    s.set(iv, 16, 8);
    s.perm(p.sH);
    isap_absorb(s, p, ad.data(), ad.size());
    s.b[39] ^= 1;
    isap_absorb(s, p, c, clen);
    uint8_t y[20], preserve[24];
    memcpy(y, s.b, p.klen);
    memcpy(preserve, s.b + p.klen, 40 - p.klen);
    s = isap_rekey(p, pk.ka, y, p.klen);
    s.set(preserve, p.klen, 40 - p.klen);
    s.perm(p.sH);
    memcpy(tag, s.b, 16);
}
static inline Bytes isap_encrypt_pk(int alg, const IsapKey &pk, const Bytes &n, const Bytes &ad, const Bytes &m)
{
    IsapParams p = isap_params(alg);
    Bytes c(m.size() + 16);
    isap_crypt(p, pk, n.data(), c.data(), m.data(), m.size());
    isap_mac(p, pk, n.data(), ad, c.data(), m.size(), c.data() + m.size());
    return c;
}
static inline Bytes isap_encrypt(int alg, const Bytes &k, const Bytes &n, const Bytes &ad, const Bytes &m)
{
    return isap_encrypt_pk(alg, isap_expand(isap_params(alg), k.data()), n, ad, m);
}
static inline Bytes isap_saved_key(int alg, const Bytes &k)
{
    IsapKey pk = isap_expand(isap_params(alg), k.data());
    Bytes out(80);
    memcpy(out.data(), pk.ke.b, 40);
    memcpy(out.data() + 40, pk.ka.b, 40);
    return out;
}

// ---- KAT self-test ----------------------------------------------------------
static inline Bytes unhex(const std::string &s)
{
    Bytes b;
    for (size_t i = 0; i + 1 < s.size(); i += 2) b.push_back((uint8_t)strtoul(s.substr(i, 2).c_str(), 0, 16));
    return b;
}
static inline bool kat_file(const std::string &path, int mode, int alg, int stride, std::string &err)
{
    std::ifstream in(path);
    if (!in) { err = "cannot open " + path; return false; }
    std::string line, key, nonce, pt, ad, ct;
    int count = 0, checked = 0;
    auto val = [](const std::string &l) { size_t p = l.find('='); std::string v = p == std::string::npos ? "" : l.substr(p + 1); while (!v.empty() && (v[0] == ' ')) v.erase(0, 1); while (!v.empty() && (v.back() == '\r' || v.back() == ' ')) v.pop_back(); return v; };
    while (std::getline(in, line)) {
        if (line.compare(0, 5, "Count") == 0) count = atoi(val(line).c_str());
        else if (line.compare(0, 3, "Key") == 0) key = val(line);
        else if (line.compare(0, 5, "Nonce") == 0) nonce = val(line);
        else if (line.compare(0, 2, "PT") == 0) pt = val(line);
        else if (line.compare(0, 2, "AD") == 0) ad = val(line);
        else if (line.compare(0, 2, "CT") == 0) {
            ct = val(line);
            if (count % stride != 1 && stride != 1) continue;
            Bytes got = mode == 0 ? siv_encrypt(alg, unhex(key), unhex(nonce), unhex(ad), unhex(pt))
                                  : isap_encrypt(alg, unhex(key), unhex(nonce), unhex(ad), unhex(pt));
            if (got != unhex(ct)) { err = "reference model disagrees with " + path + " at Count = " + std::to_string(count); return false; }
            ++checked;
        }
    }
    if (checked < 10) { err = "too few vectors in " + path; return false; }
    return true;
}
static inline bool selftest(const std::string &repo, std::string &err)
{
    if (!ascon_ref::selftest(err)) return false;
    std::string d = repo + "/test/kat/";
    return kat_file(d + "ASCON-128-SIV.txt", 0, 0, 23, err) && kat_file(d + "ASCON-128a-SIV.txt", 0, 1, 23, err) &&
           kat_file(d + "ASCON-80pq-SIV.txt", 0, 2, 23, err) && kat_file(d + "ISAP-A-128.txt", 1, 0, 97, err) &&
           kat_file(d + "ISAP-A-128A.txt", 1, 1, 23, err) && kat_file(d + "ISAP-A-80PQ.txt", 1, 2, 97, err);
}

} // namespace modes_ref
