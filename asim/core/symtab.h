// Resolve a code address of this executable to the nearest function symbol,
// local (static) functions included, by reading .symtab of /proc/self/exe.
#pragma once
#include <elf.h>
#include <link.h>
#include <cstdio>
#include <cstdint>
#include <string>
#include <vector>
#include <algorithm>

namespace asim {
struct SymTab {
    struct S { uintptr_t lo, hi; std::string name; };
    std::vector<S> syms;
    uintptr_t base = 0;
    bool loaded = false;
    static int phdr_cb(struct dl_phdr_info *info, size_t, void *data)
    {
        *(uintptr_t *)data = info->dlpi_addr; // first entry is the executable itself
        return 1;
    }
    void load()
    {
        loaded = true;
        dl_iterate_phdr(phdr_cb, &base);
        FILE *f = fopen("/proc/self/exe", "rb");
        if (!f) return;
        Elf64_Ehdr eh;
        if (fread(&eh, sizeof eh, 1, f) != 1) { fclose(f); return; }
        std::vector<Elf64_Shdr> sh(eh.e_shnum);
        fseek(f, (long)eh.e_shoff, SEEK_SET);
        if (fread(sh.data(), sizeof(Elf64_Shdr), eh.e_shnum, f) != eh.e_shnum) { fclose(f); return; }
        for (auto &s : sh) {
            if (s.sh_type != SHT_SYMTAB) continue;
            std::vector<Elf64_Sym> st(s.sh_size / sizeof(Elf64_Sym));
            fseek(f, (long)s.sh_offset, SEEK_SET);
            if (fread(st.data(), sizeof(Elf64_Sym), st.size(), f) != st.size()) break;
            const Elf64_Shdr &str = sh[s.sh_link];
            std::vector<char> names(str.sh_size + 1, 0);
            fseek(f, (long)str.sh_offset, SEEK_SET);
            if (fread(names.data(), 1, str.sh_size, f) != str.sh_size) break;
            for (auto &y : st)
                if (ELF64_ST_TYPE(y.st_info) == STT_FUNC && y.st_value)
                    syms.push_back(S{(uintptr_t)y.st_value, (uintptr_t)(y.st_value + (y.st_size ? y.st_size : 1)), std::string(&names[y.st_name])});
        }
        fclose(f);
        std::sort(syms.begin(), syms.end(), [](const S &a, const S &b) { return a.lo < b.lo; });
    }
    std::string lookup(void *pc)
    {
        if (!loaded) load();
        uintptr_t a = (uintptr_t)pc - base;
        auto it = std::upper_bound(syms.begin(), syms.end(), a, [](uintptr_t v, const S &s) { return v < s.lo; });
        if (it == syms.begin()) return "?";
        --it;
        return a < it->hi + 64 ? it->name : "?";
    }
};
} // namespace asim
