// asim core: seeded PRNG, explicit plans, history digest, verdicts, worker loop.
// Everything a run does is a pure function of its plan; a plan is a pure
// function of (VERIF_SEED, world, run index, tier).
#pragma once
#include <cstdint>
#include <cstdio>
#include <cstdlib>
#include <cstring>
#include <cstdarg>
#include <string>
#include <vector>
#include <map>
#include <set>
#include <sstream>
#include <fstream>
#include <iostream>
#include <algorithm>
#include <sys/mman.h>
#include <unistd.h>

#if defined(__SANITIZE_ADDRESS__)
#include <sanitizer/asan_interface.h>
#define ASIM_ASAN 1
#else
#define ASIM_ASAN 0
#define ASAN_POISON_MEMORY_REGION(a, n) ((void)(a), (void)(n))
#define ASAN_UNPOISON_MEMORY_REGION(a, n) ((void)(a), (void)(n))
#endif

namespace asim {

typedef std::vector<uint8_t> Bytes;

static inline uint64_t splitmix64(uint64_t &x)
{
    uint64_t z = (x += 0x9E3779B97F4A7C15ULL);
    z = (z ^ (z >> 30)) * 0xBF58476D1CE4E5B9ULL;
    z = (z ^ (z >> 27)) * 0x94D049BB133111EBULL;
    return z ^ (z >> 31);
}
static inline uint64_t mix64(uint64_t a, uint64_t b)
{
    uint64_t x = a ^ (b * 0xD6E8FEB86659FD93ULL);
    return splitmix64(x);
}
static inline uint64_t fnv(const void *p, size_t n, uint64_t h = 0xcbf29ce484222325ULL)
{
    const uint8_t *b = (const uint8_t *)p;
    for (size_t i = 0; i < n; ++i) { h ^= b[i]; h *= 0x100000001b3ULL; }
    return h;
}
static inline uint64_t fnv_str(const std::string &s, uint64_t h = 0xcbf29ce484222325ULL)
{
    return fnv(s.data(), s.size(), h);
}

struct Rng {
    uint64_t s;
    explicit Rng(uint64_t seed = 1) : s(seed) {}
    uint64_t next() { return splitmix64(s); }
    // uniform in [0, n)
    uint64_t below(uint64_t n) { return n ? next() % n : 0; }
    int64_t range(int64_t lo, int64_t hi) { return lo + (int64_t)below((uint64_t)(hi - lo + 1)); }
    bool chance(unsigned num, unsigned den) { return below(den) < num; }
    template <class T> const T &pick(const std::vector<T> &v) { return v[below(v.size())]; }
    int64_t pickv(std::initializer_list<int64_t> l)
    {
        size_t i = below(l.size());
        return *(l.begin() + i);
    }
};

// Deterministic byte strings named by (seed): plans carry seeds, not bytes.
static inline void fill_bytes(uint8_t *p, size_t n, uint64_t seed)
{
    uint64_t s = seed ^ 0xA5A5A5A55A5A5A5AULL;
    size_t i = 0;
    while (i < n) {
        uint64_t v = splitmix64(s);
        for (int k = 0; k < 8 && i < n; ++k, ++i) p[i] = (uint8_t)(v >> (8 * k));
    }
}
static inline Bytes bytes_of(size_t n, uint64_t seed)
{
    Bytes b(n);
    if (n) fill_bytes(b.data(), n, seed);
    return b;
}
static inline std::string hex(const uint8_t *p, size_t n, size_t maxn = 48)
{
    static const char *d = "0123456789abcdef";
    std::string s;
    for (size_t i = 0; i < n && i < maxn; ++i) { s += d[p[i] >> 4]; s += d[p[i] & 15]; }
    if (n > maxn) s += "..";
    return s;
}
static inline std::string hex(const Bytes &b, size_t maxn = 48) { return hex(b.data(), b.size(), maxn); }

static inline std::string fmt(const char *f, ...)
{
    char buf[1024];
    va_list ap;
    va_start(ap, f);
    vsnprintf(buf, sizeof buf, f, ap);
    va_end(ap);
    return buf;
}

struct Op {
    std::string name;
    std::vector<int64_t> a;
    Op() {}
    Op(const std::string &n, std::initializer_list<int64_t> l) : name(n), a(l) {}
    int64_t arg(size_t i, int64_t d = 0) const { return i < a.size() ? a[i] : d; }
    uint64_t u(size_t i, uint64_t d = 0) const { return i < a.size() ? (uint64_t)a[i] : d; }
    std::string text() const
    {
        std::string s = name;
        for (int64_t v : a) { s += ' '; s += std::to_string(v); }
        return s;
    }
};

struct Plan {
    std::vector<Op> ops;
    void add(const std::string &n, std::initializer_list<int64_t> l) { ops.emplace_back(n, l); }
    std::string text() const
    {
        std::string s;
        for (const Op &o : ops) { s += o.text(); s += '\n'; }
        return s;
    }
    uint64_t digest() const { return fnv_str(text()); }
    static Plan parse(std::istream &in)
    {
        Plan p;
        std::string line;
        while (std::getline(in, line)) {
            if (line.empty() || line[0] == '#') continue;
            std::istringstream ls(line);
            Op o;
            ls >> o.name;
            long long v;
            while (ls >> v) o.a.push_back(v);
            p.ops.push_back(o);
        }
        return p;
    }
    int64_t knob(const std::string &k, int64_t d) const
    {
        for (const Op &o : ops)
            if (o.name == "knob." + k) return o.arg(0, d);
        return d;
    }
};

struct Violation {
    std::string prop, oracle, site, detail;
    int op_index;
};

struct Run {
    uint64_t hist = 0xcbf29ce484222325ULL;
    std::map<std::string, uint64_t> faults, probes;
    std::set<uint64_t> *states = nullptr; // process-wide, owned by worker loop
    std::vector<Violation> viols;
    int ops_done = 0;
    int cur_op = -1;
    std::set<int64_t> tasks;
    bool thorough = false;

    void fold(const void *p, size_t n) { hist = fnv(p, n, hist); }
    void fold_u64(uint64_t v) { fold(&v, sizeof v); }
    void fold_bytes(const Bytes &b) { fold_u64(b.size()); if (!b.empty()) fold(b.data(), b.size()); }
    void fold_str(const std::string &s) { fold_u64(s.size()); fold(s.data(), s.size()); }
    void fault(const std::string &k, uint64_t n = 1) { faults[k] += n; }
    void probe(const std::string &k, uint64_t n = 1) { probes[k] += n; }
    void state(uint64_t id) { if (states) states->insert(id); }
    void state(const std::string &s) { state(fnv_str(s)); }
    void task(int64_t t) { tasks.insert(t); }
    uint64_t nfaults() const
    {
        uint64_t n = 0;
        for (auto &kv : faults) n += kv.second;
        return n;
    }
    void violation(const std::string &prop, const std::string &oracle, const std::string &site,
                   const std::string &detail)
    {
        // one report per class per run is enough
        for (auto &v : viols)
            if (v.prop == prop && v.oracle == oracle && v.site == site) return;
        viols.push_back(Violation{prop, oracle, site, detail, cur_op});
    }
};

struct World {
    virtual ~World() {}
    virtual const char *name() const = 0;
    virtual void gen(Rng &rng, Plan &plan, bool thorough) = 0;
    virtual void exec(const Plan &plan, Run &run) = 0;
    // self-test of reference models; false => harness error (exit 3), never a VIOLATION
    virtual bool selftest(std::string &) { return true; }
};

// ---------------------------------------------------------------------------
// Guarded buffers: exact-size regions with canaries (poisoned under ASan) or,
// in page mode, ending flush against a PROT_NONE page (for assembly code that
// ASan cannot see).
struct GuardBuf {
    enum { CANARY = 32 };
    uint8_t *base = nullptr;   // allocation base
    uint8_t *p = nullptr;      // user pointer
    size_t n = 0;
    size_t total = 0;
    bool page = false;
    GuardBuf() {}
    GuardBuf(size_t len, unsigned misalign = 0, bool page_mode = false, uint8_t fillv = 0xA5)
    {
        alloc(len, misalign, page_mode, fillv);
    }
    GuardBuf(const GuardBuf &) = delete;
    GuardBuf &operator=(const GuardBuf &) = delete;
    void alloc(size_t len, unsigned misalign = 0, bool page_mode = false, uint8_t fillv = 0xA5)
    {
        release();
        n = len;
        page = page_mode;
        if (page) {
            size_t ps = 4096;
            size_t body = ((len + CANARY + 16 + ps - 1) / ps) * ps;
            total = body + 2 * ps;
            base = (uint8_t *)mmap(0, total, PROT_READ | PROT_WRITE, MAP_PRIVATE | MAP_ANONYMOUS, -1, 0);
            if (base == MAP_FAILED) { perror("mmap"); _exit(2); }
            mprotect(base, ps, PROT_NONE);
            mprotect(base + ps + body, ps, PROT_NONE);
            p = base + ps + body - len; // ends exactly at the guard page
            memset(base + ps, 0xC5, body - len);
        } else {
            misalign &= 15;
            total = len + 2 * CANARY + 16;
            base = (uint8_t *)malloc(total);
            p = base + CANARY + misalign;
            memset(base, 0xC5, total);
            ASAN_POISON_MEMORY_REGION(base, (size_t)(p - base));
            ASAN_POISON_MEMORY_REGION(p + n, total - (size_t)(p + n - base));
        }
        if (n) memset(p, fillv, n);
    }
    // true when every canary byte is intact
    bool intact() const
    {
        if (!base) return true;
        bool ok = true;
        if (page) {
            size_t ps = 4096;
            for (uint8_t *q = base + ps; q < p; ++q) if (*q != 0xC5) ok = false;
        } else {
            ASAN_UNPOISON_MEMORY_REGION(base, total);
            for (uint8_t *q = base; q < p; ++q) if (*q != 0xC5) ok = false;
            for (uint8_t *q = p + n; q < base + total; ++q) if (*q != 0xC5) ok = false;
            ASAN_POISON_MEMORY_REGION(base, (size_t)(p - base));
            ASAN_POISON_MEMORY_REGION(p + n, total - (size_t)(p + n - base));
        }
        return ok;
    }
    void release()
    {
        if (!base) return;
        if (page) munmap(base, total);
        else { ASAN_UNPOISON_MEMORY_REGION(base, total); free(base); }
        base = p = nullptr;
        n = total = 0;
    }
    ~GuardBuf() { release(); }
    uint8_t *data() { return p; }
    Bytes copy() const { return Bytes(p, p + n); }
    void set(const Bytes &b) { if (!b.empty()) memcpy(p, b.data(), std::min(b.size(), n)); }
};

// ---------------------------------------------------------------------------
// aligned allocation whose size need not be a multiple of the alignment
static inline void *aalloc(size_t align, size_t size)
{
    void *p = nullptr;
    if (posix_memalign(&p, align, size ? size : 1) != 0) { perror("posix_memalign"); _exit(2); }
    return p;
}

static inline uint64_t env_u64(const char *k, uint64_t d)
{
    const char *v = getenv(k);
    if (!v || !*v) return d;
    return strtoull(v, 0, 0);
}

static inline std::string kvlist(const std::map<std::string, uint64_t> &m)
{
    std::string s;
    for (auto &kv : m) {
        if (!s.empty()) s += ',';
        s += kv.first + ":" + std::to_string(kv.second);
    }
    return s.empty() ? "-" : s;
}

static inline void report(long long idx, uint64_t seed, const Plan &plan, const Run &run)
{
    for (auto &v : run.viols) {
        std::string d = v.detail;
        for (char &c : d) if (c == '\n') c = ' ';
        printf("V %lld %s %s %s %d %s\n", idx, v.prop.c_str(), v.oracle.c_str(), v.site.c_str(),
               v.op_index, d.c_str());
    }
    printf("R %lld seed=%016llx plan=%016llx hist=%016llx ops=%d tasks=%d nf=%llu F=%s P=%s\n", idx,
           (unsigned long long)seed, (unsigned long long)plan.digest(), (unsigned long long)run.hist,
           run.ops_done, (int)run.tasks.size(), (unsigned long long)run.nfaults(),
           kvlist(run.faults).c_str(), kvlist(run.probes).c_str());
    fflush(stdout);
}

static inline uint64_t run_seed(uint64_t verif_seed, const char *world, uint64_t idx)
{
    return mix64(mix64(verif_seed, fnv_str(world)), idx);
}

// Worker entry point.
//   --gen IDX [--tier T]          print the plan of run IDX
//   --range A B [--tier T]        execute runs A..B-1
//   --exec FILE [--tier T]        execute the plan in FILE
//   --selftest
static inline int worker_main(int argc, char **argv, World &w)
{
    setvbuf(stdout, 0, _IOLBF, 0);
    uint64_t vseed = env_u64("VERIF_SEED", 20260925);
    bool thorough = false;
    std::string mode, file;
    long long a = 0, b = 0;
    for (int i = 1; i < argc; ++i) {
        std::string s = argv[i];
        if (s == "--tier" && i + 1 < argc) thorough = std::string(argv[++i]) == "thorough";
        else if (s == "--gen" && i + 1 < argc) { mode = "gen"; a = atoll(argv[++i]); }
        else if (s == "--range" && i + 2 < argc) { mode = "range"; a = atoll(argv[++i]); b = atoll(argv[++i]); }
        else if (s == "--exec" && i + 1 < argc) { mode = "exec"; file = argv[++i]; }
        else if (s == "--selftest") mode = "selftest";
    }
    std::set<uint64_t> states;
    if (mode == "selftest") {
        std::string err;
        if (!w.selftest(err)) { printf("SELFTEST-FAIL %s\n", err.c_str()); return 3; }
        printf("SELFTEST-OK\n");
        return 0;
    }
    {
        std::string err;
        if (!w.selftest(err)) { printf("SELFTEST-FAIL %s\n", err.c_str()); return 3; }
    }
    if (mode == "gen") {
        uint64_t seed = run_seed(vseed, w.name(), (uint64_t)a);
        Rng rng(seed);
        Plan p;
        w.gen(rng, p, thorough);
        fputs(p.text().c_str(), stdout);
        return 0;
    }
    if (mode == "exec") {
        std::ifstream in(file);
        if (!in) { fprintf(stderr, "cannot open %s\n", file.c_str()); return 2; }
        Plan p = Plan::parse(in);
        Run run;
        run.states = &states;
        run.thorough = thorough;
        printf("BEGIN -1\n");
        fflush(stdout);
        w.exec(p, run);
        report(-1, 0, p, run);
        return 0;
    }
    if (mode == "range") {
        for (long long i = a; i < b; ++i) {
            uint64_t seed = run_seed(vseed, w.name(), (uint64_t)i);
            Rng rng(seed);
            Plan p;
            w.gen(rng, p, thorough);
            Run run;
            run.states = &states;
            run.thorough = thorough;
            printf("BEGIN %lld\n", i);
            fflush(stdout);
            w.exec(p, run);
            report(i, seed, p, run);
        }
        std::string s = "END";
        size_t k = 0;
        for (uint64_t id : states) {
            if (k++ > 20000) break;
            s += fmt(" %llx", (unsigned long long)id);
        }
        puts(s.c_str());
        fflush(stdout);
        return 0;
    }
    fprintf(stderr, "usage: %s --gen I | --range A B | --exec FILE | --selftest  [--tier quick|thorough]\n", argv[0]);
    return 2;
}

} // namespace asim

#ifdef ASIM_MAIN
// Sanitizer defaults: classify hits by exit code, no leak flood.
extern "C" __attribute__((used, visibility("default"))) const char *__asan_default_options()
{
    return "exitcode=77:detect_leaks=0:abort_on_error=0:allocator_may_return_null=1";
}
extern "C" __attribute__((used, visibility("default"))) const char *__ubsan_default_options()
{
    return "halt_on_error=1:exitcode=78:print_stacktrace=1";
}
#endif
