#!/usr/bin/env python3
"""Driver for the deterministic-simulation checks of rweather/ascon-suite.

  python3 check.py --setup
  python3 check.py <Cxx> --tier quick|thorough      (honours VERIF_SEED, VERIF_TIER)
  python3 check.py --replay <replay.json>
  python3 check.py --determinism <world>            (development aid)
"""
import argparse, json, os, sys, time, shutil

sys.path.insert(0, os.path.dirname(os.path.abspath(__file__)))
from asim import build as B
from asim import driver as D
from asim import checks as C


def main():
    ap = argparse.ArgumentParser()
    ap.add_argument('prop', nargs='?')
    ap.add_argument('--tier', default=os.environ.get('VERIF_TIER', 'quick'))
    ap.add_argument('--setup', action='store_true')
    ap.add_argument('--replay')
    ap.add_argument('--determinism')
    ap.add_argument('--runs', type=int, default=0)
    a = ap.parse_args()
    seed = int(os.environ.get('VERIF_SEED', D.DEFAULT_SEED) or D.DEFAULT_SEED)
    try:
        if a.setup:
            return C.setup()
        if a.replay:
            import json as _json
            d = _json.load(open(a.replay))
            if d.get('kind') == 'compile':
                return C.replay_compile(d)
            if d.get('kind') == 'diff':
                return C.replay_diff(d)
            return D.replay_file(a.replay, C.exe_for_replay)
        if a.determinism:
            return C.determinism(a.determinism, seed, a.runs or 2000)
        if not a.prop or a.prop not in C.CHECKS:
            print('unknown property; have: ' + ' '.join(sorted(C.CHECKS)))
            return 2
        tier = 'thorough' if a.tier == 'thorough' else 'quick'
        return C.run_check(a.prop, tier, seed)
    except B.BuildError as e:
        print('BUILD-ERROR (harness/infrastructure, not a verdict):\n' + str(e)[-4000:])
        return 2
    except D.HarnessError as e:
        print('HARNESS-ERROR (not a verdict): ' + str(e))
        return 2


if __name__ == '__main__':
    sys.exit(main())
